"""Harness-facing API, usable in two modes with the same harness source:

  symbolic  harness (and fparser) loaded through sse.hook; holes are shadow strings over fresh
            solver variables; `check` asks z3 whether the negation is satisfiable on the path.
  native    harness and the unmodified fparser imported normally; holes take the concrete values
            of a solver model (replay of a counterexample / path-witness validation).
"""
import builtins

_str = builtins.str
MODE = "native"
_core = None

DOMAINS = {
    "print": [(32, 126)],
    "ascii": [(0, 127)],
    "text": [(9, 10), (32, 126)],
    "letter": [(65, 90), (97, 122)],
    "lower": [(97, 122)],
    "upper": [(65, 90)],
    "namec": [(48, 57), (65, 90), (95, 95), (97, 122)],
    "digit": [(48, 57)],
    "digit1": [(49, 57)],
    "blank": [(32, 32)],
}


def _mask(dom):
    if isinstance(dom, int):
        return dom
    dom = _u(dom)
    rs = DOMAINS.get(dom)
    m = 0
    if rs is None:
        for ch in dom:  # explicit alphabet
            m |= 1 << ord(ch)
        return m
    for lo, hi in rs:
        m |= ((1 << (hi - lo + 1)) - 1) << lo
    return m


def _u(x):
    """real str of a tag / parameter that may arrive as a concrete shadow string"""
    if _core is not None:
        return _core.unwrap(x)
    return x


class AssumeFailed(BaseException):
    pass


class Ctx:
    def __init__(self, params, engine=None, assignment=None):
        self.p = params
        self.eng = engine
        self.holes = {}        # tag -> list of var indices (sym) / value (native)
        self.order = []
        self.asg = assignment or {}
        self.failed = []       # native: failed checks
        self.obs = []
        self.reached = 0

    # ---- holes
    def chars(self, tag, n, dom="print"):
        """string of n characters, each ranging over `dom` (domain name, alphabet string or mask)"""
        tag = _u(tag)
        if isinstance(dom, (list, tuple)):
            doms = [_mask(d) for d in dom]
        else:
            doms = [_mask(dom)] * n
        if self.eng is None:
            v = self.asg["holes"][tag]
            assert len(v) == n, (tag, v, n)
            for ch, m in zip(v, doms):
                if not (m >> ord(ch)) & 1:
                    raise AssumeFailed("hole %s=%r outside its domain" % (tag, v))
            self.holes[tag] = v
            return v
        cs = [self.eng.fresh("%s[%d]" % (tag, i), doms[i]) for i in range(n)]
        self.holes[tag] = [c.var for c in cs]
        self.order.append(tag)
        return _core.mk(cs)

    def name(self, tag, n, case="any"):
        """Fortran name of n characters"""
        first = {"any": "letter", "lower": "lower", "upper": "upper"}[_u(case)]
        rest = {"any": "namec", "lower": "abcdefghijklmnopqrstuvwxyz0123456789_",
                "upper": "ABCDEFGHIJKLMNOPQRSTUVWXYZ0123456789_"}[_u(case)]
        return self.chars(tag, n, [first] + [rest] * (n - 1))

    def digits(self, tag, n, nonzero_first=False):
        return self.chars(tag, n, (["digit1"] if nonzero_first else ["digit"]) + ["digit"] * (n - 1))

    def choose(self, tag, n):
        tag = _u(tag)
        if self.eng is None:
            v = self.asg["choices"][tag]
            assert 0 <= v < n
            return v
        return self.eng.choose(tag, n)

    # ---- conditions
    def assume(self, c):
        if self.eng is None:
            if not c:
                raise AssumeFailed()
            return
        self.eng.assume(c)

    def check(self, c, what, detail=None):
        what = _u(what)
        self.reached += 1
        if self.eng is None:
            if not c:
                self.failed.append(what)
            return
        self.eng.check(c, what, detail)

    def fail(self, what, detail=None):
        self.check(False, what, detail)

    def holds(self, c):
        if self.eng is None:
            return bool(c)
        return self.eng.holds(c)

    def observe(self, key, value):
        """record an observable (compared between symbolic and native runs for validation)"""
        self.obs.append((_u(key), value))

    def concrete(self, x):
        """concrete python value if x is fully determined on this path, else None"""
        if self.eng is None:
            return x
        try:
            return _core.unwrap(x)
        except _core.Unsupported:
            return None

    # ---- bookkeeping (sym mode)
    def export(self, asg_list):
        """tag -> concrete str under an engine assignment list"""
        holes = {}
        for tag in self.order:
            holes[tag] = "".join(chr(asg_list[v]) for v in self.holes[tag])
        return {"holes": holes, "choices": dict(self.eng.choices)}


def sym_mode(core_module):
    global MODE, _core
    MODE = "sym"
    _core = core_module


def text(x):
    """real str of a string value (native: identity)"""
    return _u(x)


def conj(conds):
    """conjunction of conditions (symbolic-aware)"""
    conds = list(conds)
    if _core is not None:
        return _core.mk_and(conds)
    return all(conds)


def disj(conds):
    conds = list(conds)
    if _core is not None:
        return _core.mk_or(conds)
    return any(conds)


def neg(c):
    if _core is not None:
        return _core.sb_not(c)
    return not c


def is_concrete(x):
    """True when x (a string) has no symbolic characters on this path"""
    if _core is None:
        return True
    try:
        _core.unwrap(x)
        return True
    except _core.Unsupported:
        return False


def vfs():
    """virtual file system used in symbolic mode (None natively)"""
    if _core is None:
        return None
    from . import hook
    return hook.VFS


_AMASK = {}


def char_in(c, alphabet):
    """c (a 1-character string) is one of the characters of `alphabet` -- one constraint, not a
    chain of comparisons"""
    if _core is None:
        return c in alphabet
    a = _core.unwrap(alphabet)
    cs = _core.chars(c)
    if len(cs) != 1:
        return False
    x = cs[0]
    if type(x) is not _core.SC:
        return chr(x) in a
    m = _AMASK.get(a)
    if m is None:
        m = 0
        for ch in a:
            m |= 1 << ord(ch)
        _AMASK[a] = m
    return _core.U(x.var, _core.pre(x.tab, m))


_TMP = [None]


def workdir():
    """directory for harness files: the virtual file system root in symbolic mode, a fresh
    temporary directory natively"""
    if _core is not None:
        return _core.S("/vfs")
    import tempfile
    if _TMP[0] is None:
        _TMP[0] = tempfile.mkdtemp(prefix="vh_")
    return _TMP[0]


def put_file(path, content):
    if _core is not None:
        from . import hook
        hook.VFS.files[_core.to_S(path)] = _core.to_S(content)
        return
    import os
    os.makedirs(os.path.dirname(path), exist_ok=True)
    with open(path, "w") as f:
        f.write(content)


def clear_files():
    if _core is not None:
        from . import hook
        hook.VFS.reset()
        return
    import shutil
    if _TMP[0] is not None:
        shutil.rmtree(_TMP[0], ignore_errors=True)
        _TMP[0] = None
