"""Engine S: shadow-string symbolic execution runtime.

Values
  S      shadow string: concrete (`v` real str) or symbolic (`cs` tuple of int | SC); length is
         always concrete on a path.
  SC     symbolic character = (variable index, table).  The table maps the variable's value
         (0..127) to the character code, so any unary function of a character (lower, upper,
         hex digit of repr escapes ...) stays a symbolic character.
  SB     symbolic boolean.  U = unary constraint (variable in bit mask), R = equality of two
         symbolic chars of different variables, AndB/OrB composites, Z = arbitrary z3 Bool.
  SI     symbolic non-negative integer written as decimal digits (statement labels).

Deciding
  The path condition lives in two places that always agree: a bit-mask domain per variable
  (conjunction of unary constraints) and the z3 solver (domains flushed as range constraints plus
  every non-unary "residual" constraint).  Feasibility of a unary test on a variable that occurs
  in no residual is decided exactly by mask arithmetic (the unary fragment is a product of
  independent domains); everything else, and *every property assertion* (`check`), is decided by
  z3 under the full path condition.  SSE_NOMASK=1 sends every feasibility query to z3 (used by the
  validation runs to cross-check the mask procedure).
"""
import builtins, os, sys, time
import z3

_str, _int, _isinstance, _len = builtins.str, builtins.int, builtins.isinstance, builtins.len
FULL = (1 << 128) - 1
NOMASK = bool(os.environ.get("SSE_NOMASK"))


class Abort(BaseException):
    """current path infeasible / dropped by assume"""


class Unsupported(BaseException):
    """operation not modelled on symbolic values (BaseException: fparser's `except Exception` must not eat it)"""


class Budget(BaseException):
    """unit budget exhausted"""


class Hang(BaseException):
    """a single path exceeded its wall-clock limit"""


class Violation(BaseException):
    def __init__(self, what, assignment, detail=None):
        self.what, self.assignment, self.detail = what, assignment, detail


# ----------------------------------------------------------------------------- tables and masks
_TABS = {}
IDENT = tuple(range(128))


def _intern(t):
    if t == IDENT:
        return None
    r = _TABS.get(t)
    if r is None:
        r = _TABS[t] = t
    return r


LOWER_T = _intern(tuple(ord(chr(i).lower()) for i in range(128)))
UPPER_T = _intern(tuple(ord(chr(i).upper()) for i in range(128)))
_COMPOSE = {}


def compose(tab, outer):
    """table of outer(tab(v)); `outer` is a 128-table (interned)"""
    if tab is None:
        return outer
    k = (id(tab), id(outer))
    r = _COMPOSE.get(k, 0)
    if r == 0:
        r = _COMPOSE[k] = _intern(tuple(outer[x] if x < 128 else x for x in tab))
    return r


_RMASK = {}


def rmask(ranges):
    """bit mask (over codes) of a tuple of inclusive ranges"""
    r = _RMASK.get(ranges)
    if r is None:
        r = 0
        for lo, hi in ranges:
            lo = max(lo, 0)
            hi = min(hi, 127)
            if hi >= lo:
                r |= ((1 << (hi - lo + 1)) - 1) << lo
        _RMASK[ranges] = r
    return r


_PRE = {}


def pre(tab, codemask):
    """mask over variable values v with tab[v] in codemask"""
    if tab is None:
        return codemask
    k = (id(tab), codemask)
    r = _PRE.get(k)
    if r is None:
        r = 0
        for v in range(128):
            x = tab[v]
            if x < 128 and (codemask >> x) & 1:
                r |= 1 << v
        _PRE[k] = r
    return r


def bits(mask):
    out = []
    v = 0
    while mask:
        if mask & 1:
            out.append(v)
        mask >>= 1
        v += 1
    return out


def mask_ranges(mask):
    out = []
    v = 0
    while mask:
        if mask & 1:
            lo = v
            while mask & 1:
                mask >>= 1
                v += 1
            out.append((lo, v - 1))
        else:
            mask >>= 1
            v += 1
    return out


class SC:
    __slots__ = ("var", "tab")

    def __init__(self, var, tab=None):
        self.var = var
        self.tab = tab

    def __repr__(self):
        return "SC(%d%s)" % (self.var, "" if self.tab is None else ",t")


# ----------------------------------------------------------------------------- symbolic booleans
class SB:
    __slots__ = ()

    def __bool__(self):
        return ENG.branch(self)


class U(SB):
    __slots__ = ("var", "mask")

    def __init__(self, var, mask):
        self.var = var
        self.mask = mask


class R(SB):
    """tab_a[var_a] == tab_b[var_b] (neg: !=), var_a != var_b"""
    __slots__ = ("a", "b", "neg")

    def __init__(self, a, b, neg=False):
        self.a, self.b, self.neg = a, b, neg


class Z(SB):
    __slots__ = ("e", "vars")

    def __init__(self, e, vars=()):
        self.e = e
        self.vars = tuple(vars)


class AndB(SB):
    __slots__ = ("parts",)

    def __init__(self, parts):
        self.parts = parts

    def __bool__(self):
        for p in self.parts:
            if not p:
                return False
        return True


class OrB(SB):
    __slots__ = ("parts",)

    def __init__(self, parts):
        self.parts = parts

    def __bool__(self):
        for p in self.parts:
            if p:
                return True
        return False


def sb_not(x):
    if not _isinstance(x, SB):
        return not x
    if type(x) is U:
        return U(x.var, FULL & ~x.mask)
    if type(x) is R:
        return R(x.a, x.b, not x.neg)
    if type(x) is AndB:
        return OrB([sb_not(p) for p in x.parts])
    if type(x) is OrB:
        return AndB([sb_not(p) for p in x.parts])
    return Z(z3.Not(x.e), x.vars)


def mk_and(parts):
    sym = []
    for p in parts:
        if _isinstance(p, SB):
            sym.append(p)
        elif not p:
            return False
    if not sym:
        return True
    return sym[0] if _len(sym) == 1 else AndB(sym)


def mk_or(parts):
    sym = []
    for p in parts:
        if _isinstance(p, SB):
            sym.append(p)
        elif p:
            return True
    if not sym:
        return False
    return sym[0] if _len(sym) == 1 else OrB(sym)


def ceq(a, b):
    ta, tb = type(a) is SC, type(b) is SC
    if not ta and not tb:
        return a == b
    if ta and tb:
        if a.var == b.var:
            if a.tab is b.tab:
                return True
            A = a.tab or IDENT
            B = b.tab or IDENT
            m = 0
            for v in range(128):
                if A[v] == B[v]:
                    m |= 1 << v
            return U(a.var, m)
        return R(a, b)
    if tb:
        a, b = b, a
    if b > 127 or b < 0:
        return False
    return U(a.var, pre(a.tab, 1 << b))


def cclass(c, ranges):
    """ranges: tuple of inclusive (lo, hi)"""
    if type(c) is SC:
        return U(c.var, pre(c.tab, rmask(ranges)))
    for lo, hi in ranges:
        if lo <= c <= hi:
            return True
    return False


def cin(c, lo, hi):
    if type(c) is SC:
        return U(c.var, pre(c.tab, rmask(((lo, hi),))))
    return lo <= c <= hi


WS = ((9, 13), (28, 32))  # str.isspace / strip() within ASCII
ALNUM = ((48, 57), (65, 90), (97, 122))
DIGIT = ((48, 57),)
ALPHA = ((65, 90), (97, 122))
UPPERR = ((65, 90),)
LOWERR = ((97, 122),)


def clower(c):
    if type(c) is SC:
        return SC(c.var, compose(c.tab, LOWER_T))
    return LOWER_T[c] if c < 128 else ord(chr(c).lower())


def cupper(c):
    if type(c) is SC:
        return SC(c.var, compose(c.tab, UPPER_T))
    return UPPER_T[c] if c < 128 else ord(chr(c).upper())


def cmap(c, table):
    """apply an arbitrary interned 128-table to a char"""
    if type(c) is SC:
        return SC(c.var, compose(c.tab, table))
    return table[c]


# ----------------------------------------------------------------------------- engine
class Engine:
    def __init__(self):
        self.solver = z3.Solver()
        self.nchecks = 0
        self.tsolve = 0.0
        self.forks = 0
        self.maskdec = 0
        self.zvars = {}
        self._uterm = {}
        self.reset_path([])
        self.deadline = None
        self.assert_reached = 0

    # -- per path state
    def reset_path(self, prefix):
        self.prefix = prefix
        self.trace = []
        self.dom = []
        self.names = []
        self.dirty = set()
        self.resid = set()      # variable indices occurring in residual (non-unary) constraints
        self.nresid = 0
        self.known = {}
        self.choices = {}
        self.sym_decisions = 0

    def zvar(self, i):
        v = self.zvars.get(i)
        if v is None:
            v = self.zvars[i] = z3.Int("c%d" % i)
        return v

    def fresh(self, name, mask):
        i = _len(self.dom)
        self.dom.append(mask & FULL)
        self.names.append(name)
        self.dirty.add(i)
        if mask == 0:
            raise Abort()
        return SC(i)

    # -- z3 terms
    def term(self, c):
        if type(c) is not SC:
            return z3.IntVal(c)
        v = self.zvar(c.var)
        if c.tab is None:
            return v
        k = (c.var, id(c.tab))
        t = self._uterm.get(k)
        if t is None:
            # ITE chain over runs of constant offset
            tab = c.tab
            runs = []
            lo = 0
            for x in range(1, 129):
                if x == 128 or tab[x] - x != tab[lo] - lo:
                    runs.append((lo, x - 1, tab[lo] - lo))
                    lo = x
            # most common offset as default
            runs.sort(key=lambda r: r[1] - r[0])
            t = v + runs[-1][2] if runs[-1][2] else v
            for lo, hi, off in runs[:-1]:
                cond = (v == lo) if lo == hi else z3.And(v >= lo, v <= hi)
                t = z3.If(cond, v + off if off else v, t)
            self._uterm[k] = t
        return t

    def mask_term(self, var, mask):
        k = ("m", var, mask)
        t = self._uterm.get(k)
        if t is None:
            v = self.zvar(var)
            rs = mask_ranges(mask & FULL)
            parts = [(v == lo) if lo == hi else z3.And(v >= lo, v <= hi) for lo, hi in rs]
            t = z3.BoolVal(False) if not parts else (parts[0] if _len(parts) == 1 else z3.Or(*parts))
            self._uterm[k] = t
        return t

    def zterm(self, b):
        """z3 Bool of a python bool / SB"""
        if not _isinstance(b, SB):
            return z3.BoolVal(bool(b))
        t = type(b)
        if t is U:
            return self.mask_term(b.var, b.mask)
        if t is R:
            e = self.term(b.a) == self.term(b.b)
            return z3.Not(e) if b.neg else e
        if t is AndB:
            return z3.And(*[self.zterm(p) for p in b.parts])
        if t is OrB:
            return z3.Or(*[self.zterm(p) for p in b.parts])
        return b.e

    def vars_of(self, b, out=None):
        if out is None:
            out = set()
        if _isinstance(b, SB):
            t = type(b)
            if t is U:
                out.add(b.var)
            elif t is R:
                out.add(b.a.var)
                out.add(b.b.var)
            elif t is Z:
                out.update(b.vars)
            else:
                for p in b.parts:
                    self.vars_of(p, out)
        return out

    def flush(self):
        if self.dirty:
            for i in self.dirty:
                self.solver.add(self.mask_term(i, self.dom[i]))
            self.dirty.clear()

    def sat(self, *extra):
        if self.deadline is not None and time.time() > self.deadline:
            raise Budget()
        self.flush()
        t = time.time()
        self.nchecks += 1
        r = self.solver.check(*extra)
        self.tsolve += time.time() - t
        if r == z3.unknown:
            raise Unsupported("solver answered unknown")
        return r == z3.sat

    def add_resid(self, e, vars):
        self.solver.add(e)
        self.resid.update(vars)
        self.nresid += 1

    # -- branching
    def _decide(self, can_t, can_f):
        """record a decision point; returns the direction"""
        i = _len(self.trace)
        if i < _len(self.prefix):
            d = self.prefix[i]
        else:
            ct, cf = can_t(), can_f()
            if ct and cf:
                self.pending.append(self.trace + [False])
                self.forks += 1
                d = True
            elif ct:
                d = True
            elif cf:
                d = False
            else:
                raise Abort()
        self.trace.append(d)
        return d

    def branch(self, b):
        t = type(b)
        if t is U:
            var, m = b.var, b.mask
            d0 = self.dom[var]
            tm, fm = d0 & m, d0 & ~m
            if tm == 0:
                if fm == 0:
                    raise Abort()
                return False
            if fm == 0:
                return True
            self.sym_decisions += 1
            if var in self.resid or NOMASK:
                k = (var, m)
                hit = self.known.get(k)
                if hit is not None:
                    return hit
                e = self.mask_term(var, m)
                d = self._decide(lambda: self.sat(e), lambda: self.sat(z3.Not(e)))
                self.known[k] = d
            else:
                self.maskdec += 1
                d = self._decide(lambda: True, lambda: True)
            self.dom[var] = tm if d else fm
            self.dirty.add(var)
            return d
        if t is R:
            a, bb = b.a, b.b
            k = (a.var, id(a.tab), bb.var, id(bb.tab))
            hit = self.known.get(k)
            if hit is not None:
                return hit != b.neg
            # images
            A = a.tab or IDENT
            B = bb.tab or IDENT
            ia = {A[v] for v in bits(self.dom[a.var])}
            ib = {B[v] for v in bits(self.dom[bb.var])}
            common = ia & ib
            if not common:
                return b.neg
            if _len(ib) == 1:
                r = bool(U(a.var, pre(a.tab, 1 << next(iter(ib)))))
                return r != b.neg
            if _len(ia) == 1:
                r = bool(U(bb.var, pre(bb.tab, 1 << next(iter(ia)))))
                return r != b.neg
            self.sym_decisions += 1
            e = self.term(a) == self.term(bb)
            ne = z3.Not(e)
            d = self._decide(lambda: self.sat(e), lambda: self.sat(ne))
            self.add_resid(e if d else ne, (a.var, bb.var))
            self.known[k] = d
            return d != b.neg
        if t is Z:
            k = b.e.get_id()
            hit = self.known.get(k)
            if hit is not None:
                return hit
            self.sym_decisions += 1
            e = b.e
            ne = z3.Not(e)
            d = self._decide(lambda: self.sat(e), lambda: self.sat(ne))
            self.add_resid(e if d else ne, b.vars)
            self.known[k] = d
            return d
        return b.__bool__()

    def choose(self, tag, n):
        """nondeterministic choice 0..n-1 (environment outcome / schedule)"""
        for k in range(n - 1):
            i = _len(self.trace)
            if i < _len(self.prefix):
                d = self.prefix[i]
            else:
                self.pending.append(self.trace + [False])
                self.forks += 1
                d = True
            self.trace.append(d)
            if d:
                self.choices[tag] = k
                return k
        self.choices[tag] = n - 1
        return n - 1

    def assume(self, c):
        if not _isinstance(c, SB):
            if not c:
                raise Abort()
            return
        t = type(c)
        if t is U:
            m = self.dom[c.var] & c.mask
            if m == 0:
                raise Abort()
            if m != self.dom[c.var]:
                self.dom[c.var] = m
                self.dirty.add(c.var)
                if c.var in self.resid and not self.sat():
                    raise Abort()
            return
        if t is AndB:
            for p in c.parts:
                self.assume(p)
            return
        self.add_resid(self.zterm(c), self.vars_of(c))
        if not self.sat():
            raise Abort()

    def holds(self, c):
        """True iff c holds for every assignment on the current path (z3 decides)"""
        if not _isinstance(c, SB):
            return bool(c)
        return not self.sat(z3.Not(self.zterm(c)))

    def check(self, c, what="", detail=None):
        self.assert_reached += 1
        if _isinstance(c, SB):
            if self.sat(z3.Not(self.zterm(c))):
                raise Violation(what, self.assignment(self.solver.model()), detail)
        elif not c:
            raise Violation(what, self.assignment(self.solver.model() if self.sat() else None), detail)

    # -- models
    PREF = [ord(c) for c in "abxyzqwkmnABXYZ0123456789 _"]

    def assignment(self, model=None):
        """concrete value per variable on the current path"""
        if model is None and (self.nresid or NOMASK):
            if not self.sat():
                raise Abort()
            model = self.solver.model()
        out = []
        for i, d in enumerate(self.dom):
            val = None
            if model is not None:
                mv = model.eval(self.zvar(i), model_completion=True)
                val = mv.as_long()
                if not (d >> val) & 1:
                    if i in self.resid or i not in self.dirty:
                        raise Unsupported("model outside domain")
                    val = None
            if val is None:
                for p in self.PREF:
                    if (d >> p) & 1:
                        val = p
                        break
                else:
                    lo = [v for v in bits(d)]
                    pr = [v for v in lo if 33 <= v <= 126]
                    val = (pr or lo)[0]
            out.append(val)
        return out

    # -- exploration
    def run(self, fn, maxpaths=None, deadline=None, on_path=None, path_timeout=None):
        """explore fn(self) over all feasible paths. returns dict of stats"""
        import signal
        self.pending = [[]]
        self.deadline = deadline
        if path_timeout:
            def _alarm(*a):
                raise Hang()
            signal.signal(signal.SIGALRM, _alarm)
        paths = aborted = 0
        viol = []
        exhausted = True
        while self.pending:
            if (maxpaths and paths >= maxpaths) or (deadline and time.time() > deadline):
                exhausted = False
                break
            prefix = self.pending.pop()
            self.reset_path(prefix)
            self.solver.push()
            try:
                if path_timeout:
                    signal.alarm(int(path_timeout))
                try:
                    fn(self)
                finally:
                    if path_timeout:
                        signal.alarm(0)
                paths += 1
                if on_path:
                    on_path(self, None)
            except Hang:
                paths += 1
                v = Violation("did not terminate within %d s" % path_timeout, None)
                try:
                    self.deadline = None
                    v.assignment = self.assignment()
                except BaseException:
                    pass
                self.deadline = deadline
                viol.append(v)
                if on_path:
                    on_path(self, v)
            except Abort:
                aborted += 1
            except Violation as v:
                paths += 1
                viol.append(v)
                if on_path:
                    on_path(self, v)
            except Budget:
                exhausted = False
                self.solver.pop()
                break
            finally:
                pass
            self.solver.pop()
        return dict(paths=paths, aborted=aborted, violations=viol, exhausted=exhausted and not self.pending)


ENG = None


def set_engine(e):
    global ENG
    ENG = e
    return e


# ----------------------------------------------------------------------------- shadow string
class SMeta(type):
    def __instancecheck__(cls, obj):
        if cls is S:
            return type.__instancecheck__(cls, obj) or _isinstance(obj, _str)
        return type.__instancecheck__(cls, obj)


def isS(x):
    return type.__instancecheck__(S, x)


def issym(x):
    return type.__instancecheck__(S, x) and x.v is None


def chars(o):
    if isS(o):
        return o.cs if o.v is None else tuple(map(ord, o.v))
    if _isinstance(o, _str):
        return tuple(map(ord, o))
    return None


PIN = True


def mk(cs):
    cs = tuple(cs)
    dom = ENG.dom if ENG is not None else None
    sym = False
    for c in cs:
        if type(c) is SC:
            d = dom[c.var]
            if PIN and d & (d - 1) == 0:
                # pinned on this path: concretise
                cs = tuple(_pin(x, dom) for x in cs)
                sym = any(type(x) is SC for x in cs)
                break
            sym = True
    o = object.__new__(S)
    if sym:
        o.v = None
        o.cs = cs
    else:
        o.v = "".join(map(chr, cs))
        o.cs = None
    return o


def _pin(c, dom):
    if PIN and type(c) is SC:
        d = dom[c.var]
        if d & (d - 1) == 0:
            v = d.bit_length() - 1
            return v if c.tab is None else c.tab[v]
    return c


def conc(x):
    """real str of a concrete S / str; Unsupported if symbolic"""
    if isS(x):
        if x.v is None:
            # all chars pinned?
            dom = ENG.dom
            out = []
            for c in x.cs:
                if type(c) is SC:
                    d = dom[c.var]
                    if d & (d - 1):
                        raise Unsupported("concrete value of symbolic string needed")
                    v = d.bit_length() - 1
                    c = v if c.tab is None else c.tab[v]
                out.append(c)
            return "".join(map(chr, out))
        return x.v
    return x


def unwrap(x):
    if isS(x):
        return conc(x)
    if _isinstance(x, tuple):
        return tuple(unwrap(i) for i in x)
    if _isinstance(x, list):
        return [unwrap(i) for i in x]
    if type(x) is dict or type(x) is SDict:
        return {unwrap(k): unwrap(v) for k, v in x.items()}
    return x


def wrap(x):
    if _isinstance(x, _str):
        return S(x)
    if _isinstance(x, tuple) and type(x) is tuple:
        return tuple(wrap(i) for i in x)
    if type(x) is list:
        return [wrap(i) for i in x]
    return x


def _issymarg(x):
    return type.__instancecheck__(S, x) and x.v is None


class S(metaclass=SMeta):
    __slots__ = ("v", "cs")

    def __new__(cls, obj="", *enc):
        if isS(obj):
            if cls is S and type(obj) is S:
                return obj
            self = object.__new__(cls)
            self.v = obj.v
            self.cs = obj.cs
            return self
        self = object.__new__(cls)
        self.cs = None
        if _isinstance(obj, _str):
            self.v = obj
            return self
        if _isinstance(obj, SI):
            r = obj.tostr()
        elif type(obj) in (list, tuple, dict, SDict):
            r = rrepr(obj)
        elif _isinstance(obj, BaseException) and type(obj).__str__ is BaseException.__str__:
            a = obj.args
            r = S("") if _len(a) == 0 else (to_S(a[0]) if _len(a) == 1 else rrepr(a))
        elif _isinstance(obj, (bytes, bytearray)) and enc:
            r = obj.decode(*[conc(e) for e in enc])
        else:
            f = getattr(type(obj), "_shadow_str_", None)
            if f is not None:
                r = f(obj)
            else:
                r = type(obj).__str__(obj)
        if isS(r):
            self.v = r.v
            self.cs = r.cs
        else:
            self.v = r
        return self

    def __init__(self, obj="", *enc):
        pass

    # --- basic protocol
    def __str__(self):
        return conc(self)

    def __repr__(self):
        return repr(conc(self))

    def __hash__(self):
        if self.v is None:
            raise Unsupported("hash of symbolic string")
        return hash(self.v)

    def __len__(self):
        return _len(self.v) if self.v is not None else _len(self.cs)

    def __bool__(self):
        return (_len(self.v) if self.v is not None else _len(self.cs)) > 0

    def __iter__(self):
        if self.v is not None:
            return iter([S(c) for c in self.v])
        return iter([mk((c,)) for c in self.cs])

    def __getitem__(self, i):
        if self.v is not None:
            return S(self.v[i])
        if _isinstance(i, slice):
            return mk(self.cs[i])
        return mk((self.cs[i],))

    def __reduce__(self):
        if self.v is None:
            # symbolic leaves pickle through a same-process token table
            _PICKLE_TAB.append(self)
            return (_from_pickle_tab, (_len(_PICKLE_TAB) - 1, type(self)))
        return (type(self), (self.v,))

    def __format__(self, spec):
        return format(conc(self), unwrap(spec))

    def __copy__(self):
        return self

    def __deepcopy__(self, memo):
        return self

    # --- comparisons
    def __eq__(self, o):
        if self.v is not None:
            if _isinstance(o, _str):
                return self.v == o
            if isS(o) and o.v is not None:
                return self.v == o.v
        oc = chars(o)
        if oc is None:
            return NotImplemented
        sc = chars(self)
        if _len(sc) != _len(oc):
            return False
        sym = []
        for a, b in zip(sc, oc):
            if type(a) is SC or type(b) is SC:
                sym.append((a, b))
            elif a != b:
                return False
        parts = []
        for a, b in sym:
            r = ceq(a, b)
            if r is False:
                return False
            if r is not True:
                parts.append(r)
        if not parts:
            return True
        return parts[0] if _len(parts) == 1 else AndB(parts)

    def __ne__(self, o):
        r = self.__eq__(o)
        return r if r is NotImplemented else sb_not(r)

    def _cmp(self, o):
        ov = o if _isinstance(o, _str) else (o.v if isS(o) else None)
        if self.v is not None and ov is not None:
            return (self.v > ov) - (self.v < ov)
        if not (isS(o) or _isinstance(o, _str)):
            raise TypeError("ordering of str with non-str")
        # lexicographic comparison with forks per position
        a, b = chars(self), chars(o)
        for x, y in zip(a, b):
            if ceq(x, y):
                continue
            if type(x) is SC or type(y) is SC:
                lt = clt(x, y)
                return -1 if lt else 1
            return -1 if x < y else 1
        return (_len(a) > _len(b)) - (_len(a) < _len(b))

    def __lt__(self, o):
        return self._cmp(o) < 0

    def __le__(self, o):
        return self._cmp(o) <= 0

    def __gt__(self, o):
        return self._cmp(o) > 0

    def __ge__(self, o):
        return self._cmp(o) >= 0

    # --- building
    def __add__(self, o):
        if self.v is not None:
            if _isinstance(o, _str):
                return S(self.v + o)
            if isS(o) and o.v is not None:
                return S(self.v + o.v)
        oc = chars(o)
        if oc is None:
            return NotImplemented
        return mk(chars(self) + oc)

    def __radd__(self, o):
        oc = chars(o)
        if oc is None:
            return NotImplemented
        return mk(oc + chars(self))

    def __mul__(self, n):
        if not _isinstance(n, _int):
            return NotImplemented
        return mk(chars(self) * n)

    __rmul__ = __mul__

    def join(self, it):
        items = list(it)
        allc = self.v is not None
        if allc:
            for x in items:
                if _isinstance(x, _str):
                    continue
                if isS(x) and x.v is not None:
                    continue
                allc = False
                break
        if allc:
            return S(self.v.join([x if _isinstance(x, _str) else x.v for x in items]))
        out = []
        sep = chars(self)
        for k, x in enumerate(items):
            if k:
                out.extend(sep)
            xc = chars(x)
            if xc is None:
                raise TypeError("sequence item %d: expected str instance, %s found" % (k, type(x).__name__))
            out.extend(xc)
        return mk(out)

    # --- searching (positions concrete; only char equalities symbolic)
    @staticmethod
    def _match_at(sc, i, oc):
        return mk_and([ceq(sc[i + k], oc[k]) for k in range(_len(oc))])

    def find(self, sub, start=0, end=None):
        if self.v is not None and not _issymarg(sub):
            return self.v.find(conc(sub), start, *([end] if end is not None else []))
        sc = chars(self)
        oc = chars(sub)
        if oc is None:
            raise TypeError("must be str")
        n = _len(sc)
        start, end, _ = slice(start, end).indices(n)
        for i in range(start, end - _len(oc) + 1):
            if self._match_at(sc, i, oc):
                return i
        return -1

    def rfind(self, sub, start=0, end=None):
        if self.v is not None and not _issymarg(sub):
            return self.v.rfind(conc(sub), start, *([end] if end is not None else []))
        sc = chars(self)
        oc = chars(sub)
        n = _len(sc)
        start, end, _ = slice(start, end).indices(n)
        for i in range(end - _len(oc), start - 1, -1):
            if self._match_at(sc, i, oc):
                return i
        return -1

    def index(self, sub, *a):
        r = self.find(sub, *a)
        if r < 0:
            raise ValueError("substring not found")
        return r

    def rindex(self, sub, *a):
        r = self.rfind(sub, *a)
        if r < 0:
            raise ValueError("substring not found")
        return r

    def __contains__(self, sub):
        if not (isS(sub) or _isinstance(sub, _str)):
            raise TypeError("'in <string>' requires string as left operand")
        return self.find(sub) != -1

    def count(self, sub, *a):
        if self.v is not None and not _issymarg(sub):
            return self.v.count(conc(sub), *a)
        if a:
            raise Unsupported("count with bounds on symbolic")
        sc = chars(self)
        oc = chars(sub)
        i = 0
        n = 0
        if not oc:
            return _len(sc) + 1
        while i <= _len(sc) - _len(oc):
            if self._match_at(sc, i, oc):
                n += 1
                i += _len(oc)
            else:
                i += 1
        return n

    def startswith(self, p, *a):
        if _isinstance(p, tuple):
            for q in p:
                if self.startswith(q, *a):
                    return True
            return False
        if self.v is not None and not _issymarg(p):
            return self.v.startswith(conc(p), *a)
        s = self[slice(*a)] if a else self
        sc = chars(s)
        pc = chars(p)
        if _len(pc) > _len(sc):
            return False
        return bool(self._match_at(sc, 0, pc))

    def endswith(self, p, *a):
        if _isinstance(p, tuple):
            for q in p:
                if self.endswith(q, *a):
                    return True
            return False
        if self.v is not None and not _issymarg(p):
            return self.v.endswith(conc(p), *a)
        s = self[slice(*a)] if a else self
        sc = chars(s)
        pc = chars(p)
        if _len(pc) > _len(sc):
            return False
        return bool(self._match_at(sc, _len(sc) - _len(pc), pc))

    # --- case / strip
    def lower(self):
        if self.v is not None:
            return S(self.v.lower())
        return mk([clower(c) for c in self.cs])

    def upper(self):
        if self.v is not None:
            return S(self.v.upper())
        return mk([cupper(c) for c in self.cs])

    def casefold(self):
        return self.lower()

    def swapcase(self):
        if self.v is not None:
            return S(self.v.swapcase())
        return mk([cmap(c, SWAP_T) for c in self.cs])

    def capitalize(self):
        if self.v is not None:
            return S(self.v.capitalize())
        cs = self.cs
        return mk([cupper(cs[0])] + [clower(c) for c in cs[1:]])

    def title(self):
        if self.v is not None:
            return S(self.v.title())
        raise Unsupported("title on symbolic")

    def _strip(self, chs, left, right):
        if self.v is not None and (chs is None or not _issymarg(chs)):
            c = None if chs is None else conc(chs)
            return S(self.v.strip(c) if left and right else (self.v.lstrip(c) if left else self.v.rstrip(c)))
        sc = self.cs if self.v is None else tuple(map(ord, self.v))
        chs_c = None if chs is None else chars(chs)

        def isstrip(c):
            if chs_c is None:
                return cclass(c, WS)
            return mk_or([ceq(c, d) for d in chs_c])

        a, b = 0, _len(sc)
        if left:
            while a < b and isstrip(sc[a]):
                a += 1
        if right:
            while b > a and isstrip(sc[b - 1]):
                b -= 1
        return mk(sc[a:b])

    def strip(self, chs=None):
        return self._strip(chs, True, True)

    def lstrip(self, chs=None):
        return self._strip(chs, True, False)

    def rstrip(self, chs=None):
        return self._strip(chs, False, True)

    def removeprefix(self, p):
        return self[_len(p):] if self.startswith(p) else self

    def removesuffix(self, p):
        return self[:_len(self) - _len(p)] if (_len(p) and self.endswith(p)) else self

    def replace(self, old, new, count=-1):
        if self.v is not None and not _issymarg(old) and not _issymarg(new):
            return S(self.v.replace(conc(old), conc(new), count))
        sc = chars(self)
        oc = chars(old)
        nc = chars(new)
        out = []
        i = 0
        n = 0
        if not oc:
            raise Unsupported("replace of empty string on symbolic")
        while i < _len(sc):
            if (count < 0 or n < count) and i <= _len(sc) - _len(oc) and self._match_at(sc, i, oc):
                out.extend(nc)
                i += _len(oc)
                n += 1
            else:
                out.append(sc[i])
                i += 1
        return mk(out)

    def split(self, sep=None, maxsplit=-1):
        if self.v is not None and (sep is None or not _issymarg(sep)):
            return [S(x) for x in self.v.split(None if sep is None else conc(sep), maxsplit)]
        sc = chars(self)
        out = []
        if sep is None:
            i = 0
            n = _len(sc)
            while True:
                while i < n and cclass(sc[i], WS):
                    i += 1
                if i >= n:
                    break
                if maxsplit >= 0 and _len(out) >= maxsplit:
                    j = n
                    while j > i and cclass(sc[j - 1], WS):
                        j -= 1
                    out.append(mk(sc[i:j]))
                    break
                j = i
                while j < n and not cclass(sc[j], WS):
                    j += 1
                out.append(mk(sc[i:j]))
                i = j
            return out
        oc = chars(sep)
        if not oc:
            raise ValueError("empty separator")
        i = 0
        start = 0
        while i <= _len(sc) - _len(oc) and (maxsplit < 0 or _len(out) < maxsplit):
            if self._match_at(sc, i, oc):
                out.append(mk(sc[start:i]))
                i += _len(oc)
                start = i
            else:
                i += 1
        out.append(mk(sc[start:]))
        return out

    def rsplit(self, sep=None, maxsplit=-1):
        if self.v is not None and (sep is None or not _issymarg(sep)):
            return [S(x) for x in self.v.rsplit(None if sep is None else conc(sep), maxsplit)]
        sc = chars(self)
        out = []
        if sep is None:
            j = _len(sc)
            while True:
                while j > 0 and cclass(sc[j - 1], WS):
                    j -= 1
                if j <= 0:
                    break
                if maxsplit >= 0 and _len(out) >= maxsplit:
                    i = 0
                    while i < j and cclass(sc[i], WS):
                        i += 1
                    out.append(mk(sc[i:j]))
                    break
                i = j
                while i > 0 and not cclass(sc[i - 1], WS):
                    i -= 1
                out.append(mk(sc[i:j]))
                j = i
            out.reverse()
            return out
        oc = chars(sep)
        end = _len(sc)
        i = end - _len(oc)
        while i >= 0 and (maxsplit < 0 or _len(out) < maxsplit):
            if self._match_at(sc, i, oc):
                out.append(mk(sc[i + _len(oc):end]))
                end = i
                i -= _len(oc)
            else:
                i -= 1
        out.append(mk(sc[:end]))
        out.reverse()
        return out

    def partition(self, sep):
        i = self.find(sep)
        if i < 0:
            return (self, S(""), S(""))
        return (self[:i], to_S(sep), self[i + _len(sep):])

    def rpartition(self, sep):
        i = self.rfind(sep)
        if i < 0:
            return (S(""), S(""), self)
        return (self[:i], to_S(sep), self[i + _len(sep):])

    def splitlines(self, keepends=False):
        if self.v is not None:
            return [S(x) for x in self.v.splitlines(keepends)]
        sc = self.cs
        out = []
        start = 0
        i = 0
        n = _len(sc)
        while i < n:
            c = sc[i]
            if ceq(c, 13) and i + 1 < n and ceq(sc[i + 1], 10):
                out.append(mk(sc[start:i + 2] if keepends else sc[start:i]))
                i += 2
                start = i
            elif cclass(c, ((10, 13), (28, 30))):
                out.append(mk(sc[start:i + 1] if keepends else sc[start:i]))
                i += 1
                start = i
            else:
                i += 1
        if start < n:
            out.append(mk(sc[start:]))
        return out

    def expandtabs(self, ts=8):
        if self.v is not None:
            return S(self.v.expandtabs(ts))
        out = []
        col = 0
        for c in self.cs:
            if ceq(c, 9):
                k = ts - col % ts if ts > 0 else 0
                out.extend([32] * k)
                col += k
            else:
                out.append(c)
                if cclass(c, ((10, 10), (13, 13))):
                    col = 0
                else:
                    col += 1
        return mk(out)

    def _all(self, ranges):
        if _len(self) == 0:
            return False
        return bool(mk_and([cclass(c, ranges) for c in chars(self)]))

    def isalnum(self):
        return self.v.isalnum() if self.v is not None else self._all(ALNUM)

    def isdigit(self):
        return self.v.isdigit() if self.v is not None else self._all(DIGIT)

    isdecimal = isnumeric = isdigit

    def isalpha(self):
        return self.v.isalpha() if self.v is not None else self._all(ALPHA)

    def isspace(self):
        return self.v.isspace() if self.v is not None else self._all(WS)

    def isupper(self):
        if self.v is not None:
            return self.v.isupper()
        cs = self.cs
        if mk_or([cclass(c, LOWERR) for c in cs]):
            return False
        return bool(mk_or([cclass(c, UPPERR) for c in cs]))

    def islower(self):
        if self.v is not None:
            return self.v.islower()
        cs = self.cs
        if mk_or([cclass(c, UPPERR) for c in cs]):
            return False
        return bool(mk_or([cclass(c, LOWERR) for c in cs]))

    def isidentifier(self):
        if self.v is not None:
            return self.v.isidentifier()
        cs = self.cs
        if not cclass(cs[0], ((65, 90), (95, 95), (97, 122))):
            return False
        return bool(mk_and([cclass(c, ((48, 57), (65, 90), (95, 95), (97, 122))) for c in cs[1:]]))

    def isascii(self):
        return self.v.isascii() if self.v is not None else True

    def isprintable(self):
        return self.v.isprintable() if self.v is not None else bool(mk_and([cin(c, 32, 126) for c in self.cs]))

    def ljust(self, w, f=" "):
        n = _len(self)
        return self if n >= w else self + to_S(f) * (w - n)

    def rjust(self, w, f=" "):
        n = _len(self)
        return self if n >= w else to_S(f) * (w - n) + self

    def center(self, w, f=" "):
        if self.v is not None:
            return S(self.v.center(w, conc(f)))
        raise Unsupported("center on symbolic")

    def zfill(self, w):
        if self.v is not None:
            return S(self.v.zfill(w))
        raise Unsupported("zfill on symbolic")

    def encode(self, *a, **k):
        return conc(self).encode(*[conc(x) for x in a], **{kk: conc(vv) for kk, vv in k.items()})

    def translate(self, table):
        if self.v is not None:
            return S(self.v.translate(table))
        raise Unsupported("translate on symbolic")

    # --- formatting
    def __mod__(self, args):
        return fmt_percent(self, args)

    def __rmod__(self, o):
        return fmt_percent(S(o), self)

    def format(self, *a, **k):
        return fmt_format(self, a, k)


_PICKLE_TAB = []


def _from_pickle_tab(i, cls):
    return cls(_PICKLE_TAB[i])


SWAP_T = _intern(tuple(ord(chr(i).swapcase()) for i in range(128)))


def clt(x, y):
    """x < y for chars, at least one symbolic"""
    if type(x) is SC and type(y) is not SC:
        return U(x.var, pre(x.tab, rmask(((0, y - 1),)))) if y > 0 else False
    if type(y) is SC and type(x) is not SC:
        return U(y.var, pre(y.tab, rmask(((x + 1, 127),))))
    if x.var == y.var:
        A = x.tab or IDENT
        B = y.tab or IDENT
        m = 0
        for v in range(128):
            if A[v] < B[v]:
                m |= 1 << v
        return U(x.var, m)
    return Z(ENG.term(x) < ENG.term(y), (x.var, y.var))


# ----------------------------------------------------------------------------- symbolic ints
class SI:
    """symbolic non-negative int given by its decimal digit characters (statement labels)."""

    def __init__(self, digits):
        self.digits = tuple(digits)
        self._canon = None

    def canon(self):
        """digit chars without leading zeros (forks on leading zeros)"""
        if self._canon is None:
            ds = list(self.digits)
            while _len(ds) > 1 and ceq(ds[0], 48):
                ds.pop(0)
            self._canon = tuple(_pin(d, ENG.dom) for d in ds)
            if all(type(d) is not SC for d in self._canon):
                pass
        return self._canon

    def tostr(self):
        return mk(self.canon())

    def concrete(self):
        c = [_pin(d, ENG.dom) for d in self.canon()]
        if any(type(d) is SC for d in c):
            return None
        return _int("".join(map(chr, c)))

    def __eq__(self, o):
        if _isinstance(o, SI):
            a, b = self.canon(), o.canon()
        elif _isinstance(o, _int) and not _isinstance(o, bool):
            if o < 0:
                return False
            a, b = self.canon(), tuple(map(ord, _str(o)))
        else:
            return NotImplemented
        if _len(a) != _len(b):
            return False
        return mk_and([ceq(x, y) for x, y in zip(a, b)])

    def __ne__(self, o):
        r = self.__eq__(o)
        return r if r is NotImplemented else sb_not(r)

    def __bool__(self):
        c = self.canon()
        return not (_len(c) == 1 and bool(ceq(c[0], 48)))

    def _z(self):
        v = z3.IntVal(0)
        vs = []
        for d in self.digits:
            v = v * 10 + (ENG.term(d) - 48)
            if type(d) is SC:
                vs.append(d.var)
        return v, vs

    def _rel(self, o, op):
        a, va = self._z()
        if _isinstance(o, SI):
            b, vb = o._z()
        elif _isinstance(o, _int):
            b, vb = z3.IntVal(o), []
        else:
            return NotImplemented
        return Z(op(a, b), va + vb)

    def __lt__(self, o):
        return self._rel(o, lambda a, b: a < b)

    def __le__(self, o):
        return self._rel(o, lambda a, b: a <= b)

    def __gt__(self, o):
        return self._rel(o, lambda a, b: a > b)

    def __ge__(self, o):
        return self._rel(o, lambda a, b: a >= b)

    def value(self):
        """concrete value on this path: forks over the values of the symbolic digits (used for
        arithmetic, e.g. the length of a Hollerith item)"""
        v = 0
        for d in self.digits:
            k = d
            if type(d) is SC:
                k = None
                for c in range(48, 58):
                    if bool(ceq(d, c)):
                        k = c
                        break
                if k is None:
                    raise Unsupported("symbolic int with a non-digit character")
            v = v * 10 + (k - 48)
        return v

    def __add__(self, o):
        return self.value() + o

    def __radd__(self, o):
        return o + self.value()

    def __sub__(self, o):
        return self.value() - o

    def __rsub__(self, o):
        return o - self.value()

    def __mul__(self, o):
        return self.value() * o

    def __rmul__(self, o):
        return o * self.value()

    def __hash__(self):
        c = self.concrete()
        if c is None:
            raise Unsupported("hash of symbolic int")
        return hash(c)

    def __index__(self):
        c = self.concrete()
        if c is None:
            raise Unsupported("index of symbolic int")
        return c

    __int__ = __index__

    def __repr__(self):
        return conc(self.tostr())

    def __format__(self, spec):
        if not spec:
            return conc(self.tostr())
        return format(self.__index__(), spec)


class IntMeta(type):
    def __instancecheck__(cls, obj):
        return _isinstance(obj, (_int, SI))

    def __subclasscheck__(cls, sub):
        return issubclass(sub, _int)


class Int(metaclass=IntMeta):
    def __new__(cls, x=0, *a):
        if isS(x):
            if x.v is not None:
                return _int(x.v, *a)
            s = x.strip()
            if s.v is not None:
                return _int(s.v, *a)
            if a:
                raise Unsupported("int with base on symbolic")
            cs = s.cs
            if ceq(cs[0], 43) or ceq(cs[0], 45):
                raise Unsupported("signed symbolic int")
            for c in cs:
                if not cclass(c, ((48, 57), (95, 95))):
                    raise ValueError("invalid literal for int() with base 10")
            for c in cs:
                if ceq(c, 95):
                    raise Unsupported("underscore in symbolic int literal")
            return SI(cs)
        if _isinstance(x, SI):
            return x
        f = getattr(type(x), "__int__", None)
        if f is not None and not a and type(x).__module__ != "builtins":
            r = f(x)
            if _isinstance(r, (SI, _int)):
                return r
        return _int(x, *a)


# ----------------------------------------------------------------------------- formatting helpers
def to_S(x):
    if isS(x):
        return x
    return S(x)


_HEX = "0123456789abcdef"
HEXHI_T = _intern(tuple(ord(_HEX[i >> 4]) for i in range(128)))
HEXLO_T = _intern(tuple(ord(_HEX[i & 15]) for i in range(128)))


def rrepr(o):
    if isS(o):
        if o.v is not None:
            return S(repr(o.v))
        cs = o.cs
        plain = mk_and([(mk_and([cin(c, 32, 126), sb_not(ceq(c, 39)), sb_not(ceq(c, 92))]) if (type(c) is SC or c < 128)
                         else chr(c).isprintable()) for c in cs])
        if plain:
            return mk((39,) + cs + (39,))
        has_sq = bool(mk_or([ceq(c, 39) for c in cs]))
        has_dq = has_sq and bool(mk_or([ceq(c, 34) for c in cs]))
        q = 34 if (has_sq and not has_dq) else 39
        out = [q]
        for c in cs:
            if ceq(c, q) or ceq(c, 92):
                out += [92, c]
            elif ceq(c, 9):
                out += [92, 116]
            elif ceq(c, 10):
                out += [92, 110]
            elif ceq(c, 13):
                out += [92, 114]
            elif cin(c, 32, 126):
                out.append(c)
            elif type(c) is not SC and c > 127:
                out += list(map(ord, repr(chr(c))[1:-1]))
            else:
                out += [92, 120, cmap(c, HEXHI_T), cmap(c, HEXLO_T)]
        out.append(q)
        return mk(out)
    if _isinstance(o, _str):
        return S(repr(o))
    if _isinstance(o, SI):
        return o.tostr()
    t = type(o)
    if t is list or t is tuple:
        inner = S(", ").join([rrepr(x) for x in o])
        if t is list:
            return S("[") + inner + S("]")
        return S("(") + inner + (S(",)") if _len(o) == 1 else S(")"))
    if t is dict or t is SDict:
        return S("{") + S(", ").join([rrepr(k) + S(": ") + rrepr(v) for k, v in o.items()]) + S("}")
    f = getattr(t, "_shadow_repr_", None)
    r = f(o) if f is not None else t.__repr__(o)
    return to_S(r)


import re as _re
import string as _string

_PCT = _re.compile(r"%(?:\((\w+)\))?([-+ #0]*)(\d+|\*)?(?:\.(\d+))?([srdixXfeEgGc%a])")


def fmt_percent(fs, args):
    f = conc(fs)
    out = []
    pos = 0
    ai = 0
    mapping = args if _isinstance(args, dict) else None
    if not _isinstance(args, tuple) and mapping is None:
        args = (args,)
    for m in _PCT.finditer(f):
        out.append(S(f[pos:m.start()]))
        pos = m.end()
        key, flags, width, prec, conv = m.groups()
        if conv == "%":
            out.append(S("%"))
            continue
        if width == "*":
            raise Unsupported("%* width")
        if key is not None:
            val = mapping[key] if key in mapping else mapping[S(key)]
        else:
            if ai >= _len(args):
                raise TypeError("not enough arguments for format string")
            val = args[ai]
            ai += 1
        if conv == "s":
            piece = to_S(val)
        elif conv in "ra":
            piece = rrepr(val)
        else:
            if _isinstance(val, SI):
                if conv in "di" and not flags and not width:
                    piece = val.tostr()
                else:
                    piece = S(("%" + flags + (width or "") + ("." + prec if prec else "") + conv) % val.__index__())
                    out.append(piece)
                    continue
            else:
                piece = S(("%" + flags + (width or "") + ("." + prec if prec else "") + conv) % unwrap(val))
                out.append(piece)
                continue
        if width or prec or flags:
            if piece.v is None:
                if prec or "-" in flags:
                    if prec:
                        piece = piece[:_int(prec)]
                    w = _int(width or 0)
                    piece = piece.ljust(w) if "-" in flags else piece.rjust(w)
                else:
                    piece = piece.rjust(_int(width or 0))
            else:
                piece = S(("%" + flags + (width or "") + ("." + prec if prec else "") + "s") % piece.v)
        out.append(piece)
    if mapping is None and ai < _len(args):
        raise TypeError("not all arguments converted during string formatting")
    out.append(S(f[pos:]))
    return S("").join(out)


def _plain(val):
    """str() of a value as shadow string"""
    if isS(val):
        return val
    if _isinstance(val, (_int, float)) or val is None:
        return S(_str(val))
    return to_S(val)


def _resolve_field(field, a, k, auto):
    first, rest = _string._string.formatter_field_name_split(field)
    if first == "":
        first = auto[0]
        auto[0] += 1
    if _isinstance(first, _int):
        val = a[first]
    else:
        val = k[first] if first in k else k[S(first)]
    for is_attr, name in rest:
        if is_attr:
            val = getattr(val, name)
        else:
            val = val[name]
    return val


def fmt_format(fs, a, k):
    f = conc(fs)
    out = []
    auto = [0]
    for lit, field, spec, conv in _string.Formatter().parse(f):
        if lit:
            out.append(S(lit))
        if field is None:
            continue
        val = _resolve_field(field, a, k, auto)
        if conv == "r":
            val = rrepr(val)
        elif conv == "s":
            val = to_S(val)
        if spec:
            if "{" in spec:
                spec = conc(fmt_format(S(spec), a, k))
            if isS(val) or _isinstance(val, _str):
                if isS(val) and val.v is None:
                    out.append(_fmt_spec_sym(val, spec))
                else:
                    out.append(S(format(conc(val), spec)))
            elif _isinstance(val, SI):
                out.append(S(format(val.__index__(), spec)))
            else:
                out.append(S(format(val, spec)))
        else:
            out.append(_plain(val))
    return S("").join(out)


def _fmt_spec_sym(val, spec):
    m = _re.fullmatch(r"(?:(.)?([<>^]))?(\d+)?(?:\.(\d+))?s?", spec)
    if not m or (m.group(2) == "^"):
        raise Unsupported("format spec %r on symbolic string" % spec)
    fill, align, width, prec = m.groups()
    if prec:
        val = val[:_int(prec)]
    w = _int(width or 0)
    fill = fill or " "
    return val.rjust(w, fill) if align == ">" else val.ljust(w, fill)


def fjoin(*parts):
    return S("").join([_plain(p) for p in parts])


def ffmt(value, conv, spec):
    if conv == 114:
        value = rrepr(value)
    elif conv == 115:
        value = to_S(value)
    elif conv == 97:
        value = S(ascii(conc(value)))
    if spec is None or (isS(spec) and _len(spec) == 0):
        return _plain(value)
    spec = conc(spec)
    if isS(value):
        if value.v is None:
            return _fmt_spec_sym(value, spec)
        return S(format(value.v, spec))
    if _isinstance(value, SI):
        return S(format(value.__index__(), spec))
    return S(format(value, spec))


# ----------------------------------------------------------------------------- containers
class SDict(dict):
    """dict tolerating symbolic string keys: concrete keys in the native table, symbolic keys in an
    association list compared with symbolic equality (forks)."""

    def _al(self):
        try:
            return self.__dict__["_assoc"]
        except KeyError:
            self.__dict__["_assoc"] = a = []
            return a

    def _hasal(self):
        return bool(self.__dict__.get("_assoc"))

    def _find(self, k):
        al = self._al()
        for i, (kk, vv) in enumerate(al):
            if type(kk) is tuple:
                if type(k) is tuple and _len(k) == _len(kk) and _tuple_eq(kk, k):
                    return ("a", i)
            elif type(kk) is type(k) or (isS(kk) and (isS(k) or _isinstance(k, _str))):
                if kk == k:
                    return ("a", i)
        if _issymarg(k):
            n = _len(k)
            for kk in dict.keys(self):
                if (isS(kk) or _isinstance(kk, _str)) and _len(kk) == n and (kk == k):
                    return ("d", kk)
            return None
        if type(k) is tuple and self._symkey(k):
            n = _len(k)
            for kk in dict.keys(self):
                if type(kk) is tuple and _len(kk) == n and _tuple_eq(kk, k):
                    return ("d", kk)
            return None
        if _isinstance(k, SI):
            c = k.concrete()
            if c is not None:
                return ("d", c) if dict.__contains__(self, c) else None
            for kk in dict.keys(self):
                if _isinstance(kk, _int) and (k == kk):
                    return ("d", kk)
            return None
        return ("d", k) if dict.__contains__(self, k) else None

    @staticmethod
    def _symkey(k):
        if type(k) is tuple:
            for x in k:
                if SDict._symkey(x):
                    return True
            return False
        return _issymarg(k) or (_isinstance(k, SI) and k.concrete() is None)

    def __getitem__(self, k):
        if not self._symkey(k) and not self._hasal():
            return dict.__getitem__(self, k)
        f = self._find(k)
        if f is None:
            raise KeyError(k)
        return self._al()[f[1]][1] if f[0] == "a" else dict.__getitem__(self, f[1])

    def get(self, k, d=None):
        try:
            return self[k]
        except KeyError:
            return d

    def __contains__(self, k):
        if not self._symkey(k) and not self._hasal():
            return dict.__contains__(self, k)
        return self._find(k) is not None

    def __setitem__(self, k, v):
        if not self._symkey(k) and not self._hasal():
            return dict.__setitem__(self, k, v)
        f = self._find(k)
        if f is None:
            if self._symkey(k):
                self._al().append((k, v))
            else:
                dict.__setitem__(self, k, v)
        elif f[0] == "a":
            self._al()[f[1]] = (self._al()[f[1]][0], v)
        else:
            dict.__setitem__(self, f[1], v)

    def __delitem__(self, k):
        if not self._symkey(k) and not self._hasal():
            return dict.__delitem__(self, k)
        f = self._find(k)
        if f is None:
            raise KeyError(k)
        if f[0] == "a":
            del self._al()[f[1]]
        else:
            dict.__delitem__(self, f[1])

    def pop(self, k, *d):
        try:
            v = self[k]
        except KeyError:
            if d:
                return d[0]
            raise
        del self[k]
        return v

    def setdefault(self, k, d=None):
        if k in self:
            return self[k]
        self[k] = d
        return d

    def update(self, *a, **kw):
        for src in a:
            for k, v in (src.items() if hasattr(src, "items") else src):
                self[k] = v
        for k, v in kw.items():
            self[k] = v

    def clear(self):
        dict.clear(self)
        self.__dict__.pop("_assoc", None)

    def copy(self):
        n = type(self)() if type(self) is SDict else SDict()
        for k, v in self.items():
            n[k] = v
        return n

    def __len__(self):
        return dict.__len__(self) + _len(self.__dict__.get("_assoc", ()))

    def __bool__(self):
        return _len(self) > 0

    def keys(self):
        return list(dict.keys(self)) + [k for k, _ in self.__dict__.get("_assoc", ())]

    def values(self):
        return list(dict.values(self)) + [v for _, v in self.__dict__.get("_assoc", ())]

    def items(self):
        return list(dict.items(self)) + list(self.__dict__.get("_assoc", ()))

    def __iter__(self):
        return iter(self.keys())

    def __eq__(self, o):
        if not _isinstance(o, dict):
            return NotImplemented
        if _len(self) != _len(o):
            return False
        for k, v in self.items():
            if k not in o or not (o[k] == v):
                return False
        return True

    __hash__ = None


def _tuple_eq(a, b):
    for x, y in zip(a, b):
        if (isS(x) or _isinstance(x, _str)) and (isS(y) or _isinstance(y, _str)):
            if _len(x) != _len(y):
                return False
        if not (x == y):
            return False
    return True


def mkdict(keys, values):
    d = SDict()
    for k, v in zip(keys, values):
        d[k] = v
    return d


class SSet:
    """set tolerating symbolic strings (association list for symbolic members)"""

    def __init__(self, it=()):
        self._c = set()
        self._s = []
        for x in it:
            self.add(x)

    def _sym(self, x):
        return _issymarg(x)

    def __contains__(self, x):
        if not self._sym(x):
            if x in self._c:
                return True
            if not self._s or not (isS(x) or _isinstance(x, _str)):
                return False
        for y in self._s:
            if y == x:
                return True
        if self._sym(x):
            n = _len(x)
            for y in self._c:
                if (isS(y) or _isinstance(y, _str)) and _len(y) == n and (y == x):
                    return True
        return False

    def add(self, x):
        if x in self:
            return
        if self._sym(x):
            self._s.append(x)
        else:
            self._c.add(x)

    def discard(self, x):
        if not self._sym(x) and x in self._c:
            self._c.discard(x)
            return
        for i, y in enumerate(self._s):
            if y == x:
                del self._s[i]
                return

    def remove(self, x):
        if x not in self:
            raise KeyError(x)
        self.discard(x)

    def update(self, *its):
        for it in its:
            for x in it:
                self.add(x)

    def __len__(self):
        return _len(self._c) + _len(self._s)

    def __bool__(self):
        return _len(self) > 0

    def __iter__(self):
        return iter(list(self._c) + self._s)

    def __or__(self, o):
        return SSet(list(self) + list(o))

    def union(self, *o):
        r = SSet(self)
        r.update(*o)
        return r

    def __and__(self, o):
        return SSet([x for x in self if x in o])

    intersection = __and__

    def __sub__(self, o):
        return SSet([x for x in self if x not in o])

    difference = __sub__

    def issubset(self, o):
        return all(x in o for x in self)

    def __le__(self, o):
        return self.issubset(o)

    def __eq__(self, o):
        if not _isinstance(o, (SSet, set, frozenset)):
            return NotImplemented
        return _len(self) == _len(o) and all(x in o for x in self)

    __hash__ = None

    def copy(self):
        return SSet(self)

    def clear(self):
        self._c.clear()
        self._s.clear()

    def __repr__(self):
        return "SSet(%r)" % (list(self),)


# ----------------------------------------------------------------------------- concretisation under an assignment
def concretize(x, asg):
    """replace symbolic parts of x (S / SI / containers) by concrete values under assignment list"""
    if isS(x):
        if x.v is not None:
            return x.v
        out = []
        for c in x.cs:
            if type(c) is SC:
                v = asg[c.var]
                out.append(v if c.tab is None else c.tab[v])
            else:
                out.append(c)
        return "".join(map(chr, out))
    if _isinstance(x, SI):
        return _int(concretize(mk_nopin(x.digits), asg))
    if _isinstance(x, tuple):
        return tuple(concretize(i, asg) for i in x)
    if _isinstance(x, list):
        return [concretize(i, asg) for i in x]
    if _isinstance(x, dict):
        return {concretize(k, asg): concretize(v, asg) for k, v in x.items()}
    return x


def mk_nopin(cs):
    o = object.__new__(S)
    cs = tuple(cs)
    if any(type(c) is SC for c in cs):
        o.v = None
        o.cs = cs
    else:
        o.v = "".join(map(chr, cs))
        o.cs = None
    return o
