"""Inputs harvested from the AST of the repository's own tests (plain Python, never transformed)."""
import ast, glob, os


def cls_pairs(maxlen=60):
    """(class name, text) pairs: Cls("literal") calls in fparser/two/tests"""
    src = os.environ.get("FPARSER_SRC", "/repo/src")
    pairs = []
    seen = set()
    for f in sorted(glob.glob(src + "/fparser/two/tests/**/*.py", recursive=True)):
        try:
            tree = ast.parse(open(f).read())
        except Exception:
            continue
        for fdef in [x for x in ast.walk(tree) if isinstance(x, ast.FunctionDef)] + [tree]:
            alias = {}      # tcls = Some_Class
            for n in ast.walk(fdef):
                if isinstance(n, ast.Assign) and len(n.targets) == 1 and isinstance(n.targets[0], ast.Name):
                    v = n.value
                    nm = v.id if isinstance(v, ast.Name) else (v.attr if isinstance(v, ast.Attribute) else None)
                    if nm and nm[0].isupper():
                        alias.setdefault(n.targets[0].id, nm)
            for n in ast.walk(fdef):
                if isinstance(n, ast.Call) and len(n.args) == 1 and isinstance(n.args[0], ast.Constant) and isinstance(n.args[0].value, str):
                    fn = n.func
                    name = fn.id if isinstance(fn, ast.Name) else (fn.attr if isinstance(fn, ast.Attribute) else None)
                    name = alias.get(name, name)
                    v = n.args[0].value
                    if name and name[0].isupper() and 0 < len(v) <= maxlen and "\n" not in v and (name, v) not in seen and v.isascii():
                        seen.add((name, v))
                        pairs.append((name, v))
    return pairs


def corpus():
    """programs of vh/corpus.json (built by tools/mkcorpus.py from the repository's tests)"""
    import json
    p = os.path.join(os.path.dirname(os.path.dirname(os.path.abspath(__file__))), "vh", "corpus.json")
    try:
        return json.load(open(p))
    except FileNotFoundError:
        return []


def corpus1():
    """fparser1 statements of vh/corpus1.json (built by tools/mkcorpus1.py)"""
    import json
    p = os.path.join(os.path.dirname(os.path.dirname(os.path.abspath(__file__))), "vh", "corpus1.json")
    try:
        return json.load(open(p))
    except FileNotFoundError:
        return []


def test_texts(maxlen=1200):
    """every multi-line ASCII string literal of the repository's fparser2/reader tests (valid and
    invalid programs, reader layouts ...)"""
    src = os.environ.get("FPARSER_SRC", "/repo/src")
    out = []
    seen = set()
    files = glob.glob(src + "/fparser/two/tests/**/*.py", recursive=True) + glob.glob(src + "/fparser/common/tests/*.py")
    for f in sorted(files):
        try:
            tree = ast.parse(open(f).read())
        except Exception:
            continue
        for n in ast.walk(tree):
            if isinstance(n, ast.Constant) and isinstance(n.value, str) and "\n" in n.value and 4 < len(n.value) < maxlen and n.value.isascii():
                if n.value not in seen:
                    seen.add(n.value)
                    out.append(n.value)
    return out
