"""Import hook: loads fparser.* (and harness/oracle modules) from source through an AST rewrite so
that every string the code creates is a shadow string.  The real tree at $FPARSER_SRC is read on
every run; nothing in /repo is modified."""
import ast, sys, importlib.abc, importlib.util, os, types, io, collections, hashlib
from . import core, symre
from .core import S, unwrap, wrap, conc, isS, Unsupported

SRC_ROOT = os.environ.get("FPARSER_SRC", "/repo/src")
SOURCE_HASHES = {}


class Tx(ast.NodeTransformer):
    def _doc(self, node):
        body = getattr(node, "body", None)
        if body and isinstance(body[0], ast.Expr) and isinstance(body[0].value, ast.Constant) and isinstance(body[0].value.value, str):
            body[0].value._keep = True
        return self.generic_visit(node)

    visit_Module = visit_FunctionDef = visit_ClassDef = visit_AsyncFunctionDef = _doc

    def visit_Constant(self, node):
        if isinstance(node.value, str) and not getattr(node, "_keep", False):
            return ast.copy_location(ast.Call(func=ast.Name(id="_S_", ctx=ast.Load()), args=[node], keywords=[]), node)
        return node

    def visit_JoinedStr(self, node):
        parts = []
        for v in node.values:
            if isinstance(v, ast.Constant):
                parts.append(v)
            else:
                spec = self.visit_JoinedStr(v.format_spec) if v.format_spec is not None else ast.Constant(value=None)
                parts.append(ast.Call(func=ast.Name(id="_ffmt_", ctx=ast.Load()),
                                      args=[self.visit(v.value), ast.Constant(value=v.conversion), spec], keywords=[]))
        return ast.copy_location(ast.Call(func=ast.Name(id="_fjoin_", ctx=ast.Load()), args=parts, keywords=[]), node)

    def visit_Dict(self, node):
        node = self.generic_visit(node)
        if any(k is None for k in node.keys):
            return node
        return ast.copy_location(ast.Call(func=ast.Name(id="_dict_", ctx=ast.Load()),
                                          args=[ast.List(elts=node.keys, ctx=ast.Load()),
                                                ast.List(elts=node.values, ctx=ast.Load())], keywords=[]), node)

    def visit_Set(self, node):
        node = self.generic_visit(node)
        return ast.copy_location(ast.Call(func=ast.Name(id="set", ctx=ast.Load()),
                                          args=[ast.List(elts=node.elts, ctx=ast.Load())], keywords=[]), node)

    def visit_Attribute(self, node):
        node = self.generic_visit(node)
        if isinstance(node.ctx, ast.Load) and node.attr in ("__name__", "__module__", "__qualname__", "__doc__"):
            return ast.copy_location(ast.Call(func=ast.Name(id="_wrap_", ctx=ast.Load()), args=[node], keywords=[]), node)
        return node

    def _imp(self, node, names):
        fix = [ast.Assign(targets=[ast.Name(id=n, ctx=ast.Store())],
                          value=ast.Call(func=ast.Name(id="_wrapext_", ctx=ast.Load()),
                                         args=[ast.Name(id=n, ctx=ast.Load())], keywords=[])) for n in names]
        return [node] + [ast.fix_missing_locations(ast.copy_location(f, node)) for f in fix]

    def visit_ImportFrom(self, node):
        if node.level or (node.module and _is_shadow_module(node.module)):
            return node
        if node.module == "__future__":
            return node
        return self._imp(node, [(a.asname or a.name) for a in node.names if a.name != "*"])

    def visit_Import(self, node):
        names = [a.asname or a.name.split(".")[0] for a in node.names if not _is_shadow_module(a.name)]
        return self._imp(node, names)

    def visit_Assign(self, node):
        if any(isinstance(t, ast.Name) and t.id in ("__all__", "__slots__") for t in node.targets):
            return node
        return self.generic_visit(node)

    def visit_AugAssign(self, node):
        if isinstance(node.target, ast.Name) and node.target.id == "__all__":
            return node
        return self.generic_visit(node)

    def visit_AnnAssign(self, node):
        if node.value is not None:
            node.value = self.visit(node.value)
        return node

    def visit_arguments(self, node):
        node.defaults = [self.visit(d) for d in node.defaults]
        node.kw_defaults = [self.visit(d) if d is not None else None for d in node.kw_defaults]
        return node

    def visit_Global(self, node):
        return node

    def visit_Nonlocal(self, node):
        return node


SHADOW_PREFIXES = ["fparser"]


def _is_shadow_module(name):
    for p in SHADOW_PREFIXES:
        if name == p or name.startswith(p + "."):
            return True
    return False


def _mk(orig):
    def native(self):
        return conc(core.to_S(orig(self)))
    return native


def fix_classes_dict(d):
    for v in list(d.values()):
        if isinstance(v, type) and v is not S and not issubclass(v, S):
            for nm, sh in (("__str__", "_shadow_str_"), ("__repr__", "_shadow_repr_")):
                if nm in v.__dict__ and sh not in v.__dict__:
                    orig = v.__dict__[nm]
                    try:
                        setattr(v, sh, orig)
                        setattr(v, nm, _mk(orig))
                    except (TypeError, AttributeError):
                        pass


def _xf(src, mode):
    tree = ast.parse(conc(src), "<%s>" % mode, mode)
    tree = Tx().visit(tree)
    ast.fix_missing_locations(tree)
    return compile(tree, "<%s>" % mode, mode)


def r_exec(src, g=None, l=None):
    f = sys._getframe(1)
    if g is None:
        g, l = f.f_globals, f.f_locals
    exec(_xf(src, "exec"), g, l)
    fix_classes_dict(l if l is not None else g)


def r_eval(src, g=None, l=None):
    f = sys._getframe(1)
    if g is None:
        g, l = f.f_globals, f.f_locals
    return eval(_xf(src, "eval"), g, l)


def r_dir(*a):
    return wrap(dir(*a)) if a else wrap(sorted(sys._getframe(1).f_locals))


# ----------------------------------------------------------------------------- virtual file system
class VFS:
    """files: path -> content (both may be symbolic shadow strings)."""
    files = core.SDict()
    oracle = None
    opened = []

    @classmethod
    def reset(cls):
        cls.files = core.SDict()
        cls.oracle = None
        cls.opened = []

    @classmethod
    def lookup(cls, path):
        """the stored key equal to path, or None"""
        path = core.to_S(path)
        for k in cls.files.keys():
            if len(k) == len(path) and (k == path):
                return k
        return None

    @classmethod
    def has_dir(cls, path):
        path = core.to_S(path).rstrip("/") + S("/")
        for k in cls.files.keys():
            if len(k) > len(path) and k.startswith(path):
                return True
        return False


class SIO:
    """StringIO / text file stand-in over shadow strings"""

    def __init__(self, s="", name=None):
        self.s = core.to_S(s)
        self.lines = self.s.splitlines(True)
        self.i = 0
        if name is not None:
            self.name = name
        self.closed = False

    def __iter__(self):
        return self

    def __next__(self):
        if self.i >= len(self.lines):
            raise StopIteration
        self.i += 1
        return self.lines[self.i - 1]

    def readline(self):
        try:
            return next(self)
        except StopIteration:
            return S("")

    def readlines(self):
        r = self.lines[self.i:]
        self.i = len(self.lines)
        return r

    def read(self):
        r = S("").join(self.lines[self.i:])
        self.i = len(self.lines)
        return r

    def tell(self):
        return self.i

    def seek(self, i, whence=0):
        self.i = i

    def close(self):
        self.closed = True

    def __enter__(self):
        return self

    def __exit__(self, *a):
        self.close()

    def getvalue(self):
        return self.s


def v_open(path, mode="r", *a, **k):
    key = VFS.lookup(path)
    if key is not None:
        VFS.opened.append(key)
        return SIO(VFS.files[key], name=core.to_S(key))
    if len(VFS.files) or VFS.oracle is not None:
        raise FileNotFoundError(2, "No such file or directory (vfs)")
    p = conc(path)
    with open(p, conc(mode), *[unwrap(x) for x in a], **{kk: unwrap(v) for kk, v in k.items()}) as f:
        return SIO(f.read(), name=S(p))


class _Path:
    sep = S("/")

    @staticmethod
    def join(a, *rest):
        a = core.to_S(a)
        for b in rest:
            b = core.to_S(b)
            if b.startswith("/"):
                a = b
            elif len(a) == 0 or a.endswith("/"):
                a = a + b
            else:
                a = a + S("/") + b
        return a

    @staticmethod
    def exists(p):
        if VFS.oracle is not None:
            return VFS.oracle("exists", p)
        if len(VFS.files):
            return VFS.lookup(p) is not None or VFS.has_dir(p)
        if core.issym(p):
            return False    # program text / symbolic names are not paths of the real file system
        return os.path.exists(conc(p))

    @staticmethod
    def isfile(p):
        if VFS.oracle is not None:
            return VFS.oracle("isfile", p)
        if len(VFS.files):
            return VFS.lookup(p) is not None
        if core.issym(p):
            return False
        return os.path.isfile(conc(p))

    @staticmethod
    def isdir(p):
        if VFS.oracle is not None:
            return VFS.oracle("isdir", p)
        if len(VFS.files):
            return VFS.has_dir(p)
        if core.issym(p):
            return False
        return os.path.isdir(conc(p))

    @staticmethod
    def dirname(p):
        p = core.to_S(p)
        i = p.rfind("/")
        if i < 0:
            return S("")
        head = p[:i + 1]
        if head and head != S("/") * len(head):
            head = head.rstrip("/")
        return head

    @staticmethod
    def basename(p):
        p = core.to_S(p)
        return p[p.rfind("/") + 1:]

    @staticmethod
    def splitext(p):
        p = core.to_S(p)
        sep = p.rfind("/")
        dot = p.rfind(".")
        if dot > sep:
            i = sep + 1
            while i < dot:
                if p[i] != S("."):
                    return p[:dot], p[dot:]
                i += 1
        return p, S("")

    @staticmethod
    def abspath(p):
        p = core.to_S(p)
        if p.startswith("/"):
            return p
        return wrap(os.path.abspath(conc(p)))

    @staticmethod
    def expanduser(p):
        return wrap(os.path.expanduser(conc(p)))


class _OS:
    path = _Path
    sep = S("/")
    linesep = S("\n")

    def __getattr__(self, n):
        v = getattr(os, n)
        if callable(v):
            return _callproxy(v)
        return wrap(v)


class ModProxy:
    def __init__(self, m):
        self.__dict__["_m"] = m

    def __getattr__(self, n):
        v = getattr(self._m, n)
        if isinstance(v, types.ModuleType):
            return ModProxy(v)
        if callable(v) and not isinstance(v, type):
            return _callproxy(v)
        return wrap(v)


def _callproxy(v):
    def f(*a, **k):
        return wrap(v(*[unwrap(x) for x in a], **{kk: unwrap(vv) for kk, vv in k.items()}))
    f.__name__ = getattr(v, "__name__", "proxy")
    return f


class _Traceback:
    @staticmethod
    def format_stack(*a, **k):
        return []

    @staticmethod
    def print_exc(*a, **k):
        return None

    @staticmethod
    def format_exc(*a, **k):
        return S("")


import re as _re0
import traceback as _tb0
import copy as _copy0


def wrapext(obj):
    if obj is _re0:
        return symre.REMod
    if obj is os:
        return _OS()
    if obj is _tb0:
        return _Traceback
    if obj is io.StringIO:
        return SIO
    if obj is collections.deque or obj is _copy0:
        return obj
    if isinstance(obj, types.ModuleType):
        if obj.__name__.split(".")[0] in ("typing", "logging", "sys", "sse", "z3", "copy", "pickle", "itertools", "functools", "time"):
            return obj
        return ModProxy(obj)
    mod = getattr(obj, "__module__", None) or ""
    if mod.split(".")[0] in ("typing", "logging", "sys", "sse", "z3", "copy", "pickle", "itertools", "functools", "time"):
        return obj
    if isinstance(obj, type):
        if issubclass(obj, BaseException) or obj.__module__ == "builtins":
            return obj
        return _callproxy(obj)
    if callable(obj):
        return _callproxy(obj)
    return obj


def r_hash(x):
    if core.issym(x):
        return 424242
    return hash(x)


def r_getattr(o, n, *d):
    return getattr(o, conc(n), *d)


def r_ord(c):
    if core.issym(c):
        raise Unsupported("ord of symbolic char")
    return ord(conc(c))


def r_isinstance(o, t):
    return isinstance(o, t)


def r_float(x=0.0):
    return float(conc(x)) if isS(x) else float(x)


def r_print(*a, **k):
    print(*[conc(core.to_S(x)) if not isinstance(x, (int, float)) else x for x in a], **k)


def r_type(*a):
    if len(a) == 1:
        return type(a[0])
    name, bases, ns = a
    return type(conc(name), bases, {conc(k) if isS(k) else k: v for k, v in ns.items()})


INJECT = {"_S_": S, "_fjoin_": core.fjoin, "_ffmt_": core.ffmt, "_wrap_": wrap, "_wrapext_": wrapext,
          "_dict_": core.mkdict, "dict": core.SDict, "set": core.SSet, "str": S, "int": core.Int, "repr": core.rrepr,
          "exec": r_exec, "eval": r_eval, "dir": r_dir, "hash": r_hash, "open": v_open, "float": r_float,
          "getattr": r_getattr, "hasattr": lambda o, n: hasattr(o, conc(n)),
          "setattr": lambda o, n, v: setattr(o, conc(n), v), "delattr": lambda o, n: delattr(o, conc(n)),
          "ord": r_ord, "chr": lambda i: S(chr(i)), "print": r_print}


def load_source(module, path):
    src = open(path).read()
    SOURCE_HASHES[module.__name__] = hashlib.sha256(src.encode()).hexdigest()[:16]
    if module.__name__ in ("fparser", "fparser._version"):
        exec(compile(src, path, "exec"), module.__dict__)
        return
    tree = Tx().visit(ast.parse(src, path))
    ast.fix_missing_locations(tree)
    module.__dict__.update(INJECT)
    exec(compile(tree, path, "exec"), module.__dict__)
    fix_classes_dict(module.__dict__)


class Loader(importlib.abc.Loader):
    def __init__(self, path):
        self.path = path

    def create_module(self, spec):
        return None

    def exec_module(self, module):
        load_source(module, self.path)


class Finder(importlib.abc.MetaPathFinder):
    def __init__(self, roots):
        self.roots = roots  # prefix -> directory containing the top package / module

    def find_spec(self, name, path, target=None):
        top = name.split(".")[0]
        root = self.roots.get(top)
        if root is None:
            return None
        p = os.path.join(root, name.replace(".", "/"))
        if os.path.isdir(p) and os.path.exists(os.path.join(p, "__init__.py")):
            f = os.path.join(p, "__init__.py")
            return importlib.util.spec_from_file_location(name, f, loader=Loader(f), submodule_search_locations=[p])
        if os.path.exists(p + ".py"):
            return importlib.util.spec_from_file_location(name, p + ".py", loader=Loader(p + ".py"))
        return None


_INSTALLED = []


def _patch_copyreg():
    """copy/pickle rebuild objects with cls.__new__(cls, *args, **kwargs); keyword names coming from
    rewritten code are shadow strings and must reach the interpreter as real str"""
    import copyreg
    if getattr(copyreg.__newobj_ex__, "_sse", False):
        return

    def __newobj_ex__(cls, args, kwargs):
        return cls.__new__(cls, *args, **{(conc(k) if isS(k) else k): v for k, v in kwargs.items()})

    __newobj_ex__._sse = True
    copyreg.__newobj_ex__ = __newobj_ex__


def install(root=None, extra=None):
    """serve `fparser` from root (default $FPARSER_SRC) and each top-level name in `extra`
    (dict name -> directory) through the shadow transform"""
    root = root or SRC_ROOT
    for k in [k for k in sys.modules if _is_shadow_module(k)]:
        del sys.modules[k]
    roots = {"fparser": root}
    for name, d in (extra or {}).items():
        roots[name] = d
        if name not in SHADOW_PREFIXES:
            SHADOW_PREFIXES.append(name)
    _patch_copyreg()
    f = Finder(roots)
    sys.meta_path.insert(0, f)
    _INSTALLED.append(f)
    return f
