"""Native side: runs a harness against the *unmodified* fparser (no hook, real str) with the holes
fixed to concrete values.  Used (a) to replay solver counterexamples before anything is reported,
(b) to validate explored paths (witness of the path condition -> same observables natively).

  python -m sse.native            persistent worker, JSON lines on stdin/stdout
"""
import sys, os, json, importlib, signal, logging, traceback


def jsonable(x):
    if isinstance(x, (str, int, float, bool)) or x is None:
        return x
    if isinstance(x, (list, tuple)):
        return [jsonable(i) for i in x]
    if isinstance(x, dict):
        return {str(k): jsonable(v) for k, v in x.items()}
    return repr(x)


class _Timeout(BaseException):
    pass


def _alarm(*a):
    raise _Timeout()


def run_one(req):
    from sse import api
    mod = importlib.import_module(req["module"])
    fn = getattr(mod, req["h"])
    ctx = api.Ctx(req["params"], None, req["asg"])
    out = {"failed": [], "assume_failed": False, "obs": [], "exc": None, "reached": 0}
    signal.signal(signal.SIGALRM, _alarm)
    signal.alarm(int(req.get("timeout", 120)))
    try:
        fn(ctx)
    except api.AssumeFailed as e:
        out["assume_failed"] = True
    except _Timeout:
        out["exc"] = "Timeout"
        ctx.failed.append("native run exceeded time limit")
    except SystemExit as e:
        out["exc"] = "SystemExit escaped the harness"
    except BaseException as e:
        out["exc"] = "%s: %s" % (type(e).__name__, e)
        out["tb"] = traceback.format_exc()[-2000:]
    finally:
        signal.alarm(0)
    out["failed"] = list(ctx.failed)
    out["obs"] = jsonable(ctx.obs)
    out["reached"] = ctx.reached
    return out


def main():
    logging.disable(logging.CRITICAL)
    src = os.environ.get("FPARSER_SRC", "/repo/src")
    here = os.path.dirname(os.path.dirname(os.path.abspath(__file__)))
    sys.path[:0] = [src, here]
    real_out = os.fdopen(os.dup(1), "w")
    devnull = open(os.devnull, "w")
    os.dup2(devnull.fileno(), 1)   # harness / fparser prints must not corrupt the protocol
    sys.stdout = devnull
    for line in sys.stdin:
        line = line.strip()
        if not line:
            continue
        req = json.loads(line)
        try:
            resp = run_one(req)
        except BaseException as e:  # harness import errors etc.
            resp = {"error": "%s: %s" % (type(e).__name__, e), "tb": traceback.format_exc()[-3000:]}
        real_out.write(json.dumps(resp) + "\n")
        real_out.flush()


if __name__ == "__main__":
    main()
