"""Driver: explores every unit of a property's harness with engine S on a process pool, replays
counterexamples natively, validates sampled path witnesses natively, writes the evidence file.

exit 0  every explored unit held (KNOWN-FINDING lines allowed)
exit 1  natively reproduced violation not in known_findings.json  (VIOLATION line printed)
exit 2  engine error / inconclusive (non-reproducing counterexample, solver unknown, unsupported
        operation, validation mismatch) -- neither a pass nor a violation
"""
import sys, os, json, time, argparse, importlib, subprocess, threading, re, traceback, hashlib, logging

HERE = os.path.dirname(os.path.dirname(os.path.abspath(__file__)))
SRC = os.environ.get("FPARSER_SRC", "/repo/src")
PY = "/venv/bin/python"


# ----------------------------------------------------------------------------- worker side
_W = {}


def _worker_init():
    import sse.core as core
    _W["funcs"] = set()
    try:
        mon = sys.monitoring
        tid = mon.PROFILER_ID
        mon.use_tool_id(tid, "sse")

        def on_start(code, off):
            fn = code.co_filename
            if fn.startswith(SRC):
                _W["funcs"].add(fn[len(SRC) + 1:] + ":" + code.co_qualname)
            return mon.DISABLE

        mon.register_callback(tid, mon.events.PY_START, on_start)
        mon.set_events(tid, mon.events.PY_START)
    except Exception:
        pass


def run_unit(job):
    """explore one unit; returns a JSON-able result dict"""
    import sse.core as core, sse.api as api
    idx, modname, unit, opts = job
    if "funcs" not in _W:
        _worker_init()
    mod = importlib.import_module(modname)
    fn = getattr(mod, core.unwrap(unit["h"]))
    eng = core.set_engine(core.Engine())
    t0 = time.time()
    budget = unit.get("budget_s", opts["unit_budget_s"])
    deadline = min(t0 + budget, opts["deadline"])
    cur = [None]
    res = dict(idx=idx, unit=unit, paths=0, aborted=0, exhausted=False, violations=[], witnesses=[], error=None,
               reached=0, nontrivial=0, sym_decisions=0)
    every = max(1, opts["witness_every"])
    wcap = opts["witness_cap"]
    phase = (opts["seed"] + idx) % every

    def wrap_deep(x):
        if isinstance(x, str):
            return core.S(x)
        if isinstance(x, dict):
            return {k: wrap_deep(v) for k, v in x.items()}
        if isinstance(x, (list, tuple)):
            return [wrap_deep(v) for v in x]
        return x

    sunit = wrap_deep(unit)

    def body(e):
        ctx = api.Ctx(sunit, e)
        cur[0] = ctx
        fn(ctx)

    def on_path(e, viol):
        ctx = cur[0]
        n = res["paths"]
        res["paths"] += 1
        res["reached"] += ctx.reached
        res["sym_decisions"] += e.sym_decisions
        if e.sym_decisions > 0:
            res["nontrivial"] += 1
        if viol is not None:
            if len(res["violations"]) < 50:
                res["violations"].append(dict(what=viol.what, asg=ctx.export(viol.assignment) if viol.assignment is not None else None,
                                              detail=core.unwrap(viol.detail) if viol.detail is not None else None))
            else:
                res["violations_dropped"] = res.get("violations_dropped", 0) + 1
            return
        if (n % every == phase or n == 0) and len(res["witnesses"]) < wcap:
            asg = e.assignment()
            res["witnesses"].append(dict(asg=ctx.export(asg), obs=_jsonable(core.concretize(ctx.obs, asg)),
                                         decisions=len(e.trace)))

    try:
        st = eng.run(body, maxpaths=unit.get("maxpaths"), deadline=deadline, on_path=on_path, path_timeout=unit.get("path_timeout", opts.get("path_timeout")))
        res["aborted"] = st["aborted"]
        res["exhausted"] = st["exhausted"]
    except core.Unsupported as u:
        res["error"] = "Unsupported: %s" % (u,)
        res["tb"] = traceback.format_exc()[-4000:]
    except BaseException as ex:
        res["error"] = "%s: %s" % (type(ex).__name__, ex)
        res["tb"] = traceback.format_exc()[-3000:]
    res["time_s"] = time.time() - t0
    res["solver_checks"] = eng.nchecks
    res["solver_time_s"] = eng.tsolve
    res["forks"] = eng.forks
    res["mask_decisions"] = eng.maskdec
    res["funcs"] = sorted(_W["funcs"])
    return res


def _jsonable(x):
    from sse.native import jsonable
    return jsonable(x)


# ----------------------------------------------------------------------------- native workers
class NativePool:
    def __init__(self, n):
        self.n = n
        self.procs = []
        self.lock = threading.Lock()
        self.free = []

    def _spawn(self):
        env = dict(os.environ)
        env["PYTHONPATH"] = SRC + os.pathsep + HERE
        env["FPARSER_SRC"] = SRC
        p = subprocess.Popen([PY, "-m", "sse.native"], stdin=subprocess.PIPE, stdout=subprocess.PIPE,
                             stderr=subprocess.DEVNULL, cwd=HERE, env=env, text=True, bufsize=1)
        self.procs.append(p)
        return p

    def call(self, p, req):
        p.stdin.write(json.dumps(req) + "\n")
        p.stdin.flush()
        line = p.stdout.readline()
        if not line:
            return {"error": "native worker died"}
        return json.loads(line)

    def map(self, reqs):
        out = [None] * len(reqs)
        it = iter(enumerate(reqs))
        lk = threading.Lock()

        def work():
            p = self._spawn()
            while True:
                with lk:
                    try:
                        i, r = next(it)
                    except StopIteration:
                        break
                resp = self.call(p, r)
                if "error" in resp and resp["error"] == "native worker died":
                    p = self._spawn()
                out[i] = resp
            try:
                p.stdin.close()
            except Exception:
                pass

        ths = [threading.Thread(target=work) for _ in range(min(self.n, max(1, len(reqs))))]
        for t in ths:
            t.start()
        for t in ths:
            t.join()
        return out

    def close(self):
        for p in self.procs:
            try:
                p.kill()
            except Exception:
                pass


# ----------------------------------------------------------------------------- main
def load_known():
    try:
        return json.load(open(os.path.join(HERE, "known_findings.json")))
    except FileNotFoundError:
        return {"known": [], "fixed": []}


def match_known(known, prop, h, what):
    for k in known.get("known", []):
        if k["property"] == prop and (k.get("harness") in (None, h)) and re.search(k["what_re"], what):
            return k
    return None


def main(argv=None):
    ap = argparse.ArgumentParser()
    ap.add_argument("prop")
    ap.add_argument("--tier", default=os.environ.get("VERIF_TIER", "quick"))
    ap.add_argument("--replay")
    ap.add_argument("--jobs", type=int, default=int(os.environ.get("VERIF_JOBS", "16")))
    ap.add_argument("--only", help="regex on unit json to select units")
    ap.add_argument("--budget", type=float, help="override total wall budget (s)")
    ap.add_argument("--no-evidence", action="store_true")
    ap.add_argument("--verbose", "-v", action="store_true")
    a = ap.parse_args(argv)
    prop = a.prop.upper()
    modname = "vh." + prop.lower()
    seed = int(os.environ.get("VERIF_SEED", "0") or 0)
    logging.disable(logging.CRITICAL)

    if a.replay:
        return replay(prop, a.replay)

    t0 = time.time()
    sys.path[:0] = [HERE, os.path.join(HERE, ".deps")]
    import sse.core as core, sse.hook as hook, sse.api as api
    api.sym_mode(core)
    hook.install(SRC, extra={"vh": HERE})
    core.set_engine(core.Engine())
    mod = importlib.import_module(modname)
    tier = a.tier
    units = [core.unwrap(u) for u in mod.units(tier)]
    meta = core.unwrap(mod.meta(tier)) if hasattr(mod, "meta") else {}
    if a.only:
        units = [u for u in units if re.search(a.only, json.dumps(u, sort_keys=True))]
    total_budget = a.budget or meta.get("budget_s", 240 if tier == "quick" else 3000)
    opts = dict(deadline=t0 + total_budget, unit_budget_s=meta.get("unit_budget_s", 60 if tier == "quick" else 600),
                witness_every=meta.get("witness_every", 20 if tier == "quick" else 50),
                witness_cap=meta.get("witness_cap", 6 if tier == "quick" else 12), seed=seed, path_timeout=meta.get("path_timeout"))
    # cheapest first when the harness gives a cost hint
    order = sorted(range(len(units)), key=lambda i: (units[i].get("cost", 1), i))
    jobs = [(i, modname, units[i], opts) for i in order]
    results = []
    import multiprocessing as mp
    ctx = mp.get_context("fork")
    nproc = max(1, min(a.jobs, len(jobs)))
    if nproc == 1:
        for j in jobs:
            results.append(run_unit(j))
    else:
        with ctx.Pool(nproc, maxtasksperchild=meta.get("maxtasksperchild", 50)) as pool:
            for r in pool.imap_unordered(run_unit, jobs, chunksize=1):
                results.append(r)
                if a.verbose:
                    print("unit %d %s: paths=%d exh=%s viol=%d err=%s %.1fs" % (
                        r["idx"], json.dumps(r["unit"], sort_keys=True)[:100], r["paths"], r["exhausted"], len(r["violations"]), r["error"], r["time_s"]), flush=True)
    results.sort(key=lambda r: r["idx"])
    t_explore = time.time() - t0

    # ---- aggregate
    paths = sum(r["paths"] for r in results)
    errors = [r for r in results if r["error"]]
    unexhausted = [r for r in results if not r["exhausted"] and not r["error"]]
    viols = [(r, v) for r in results for v in r["violations"]]
    funcs = sorted(set(f for r in results for f in r["funcs"]))
    reached = sum(r["reached"] for r in results)
    status = 0
    lines = []

    # ---- native replay of counterexamples
    pool = NativePool(min(8, a.jobs))
    known = load_known()
    groups = {}
    for r, v in viols:
        groups.setdefault((r["unit"]["h"], v["what"]), []).append((r, v))
    confirmed = []
    engine_errors = []
    os.makedirs(os.path.join(HERE, "replays"), exist_ok=True)
    for (h, what), items in sorted(groups.items()):
        cand = [(r, v) for r, v in items if v["asg"] is not None][:4]
        reqs = [dict(module=modname, h=h, params=r["unit"], asg=v["asg"], timeout=meta.get("native_timeout", 120)) for r, v in cand]
        resps = pool.map(reqs)
        hit = None
        for (r, v), resp in zip(cand, resps):
            if resp.get("failed") and (what in resp["failed"] or (what.startswith("did not terminate") and "native run exceeded time limit" in resp["failed"])):
                hit = (r, v, resp)
                break
        if hit is None:
            engine_errors.append("counterexample for %s/%s did not reproduce natively: %s" % (h, what, json.dumps(resps[:1])[:600]))
            continue
        r, v, resp = hit
        k = match_known(known, prop, h, what)
        rec = dict(property=prop, module=modname, h=h, params=r["unit"], asg=v["asg"], what=what, detail=v.get("detail"),
                   native=resp, instances=len(items))
        if k is not None:
            lines.append("KNOWN-FINDING: property=%s %s [%s; %d symbolic path(s), witness %s]" % (
                prop, k["desc"], what, len(items), json.dumps(v["asg"]["holes"])[:120]))
            rec["known"] = k["desc"]
        else:
            name = "%s-%s.json" % (prop, hashlib.sha1((h + what).encode()).hexdigest()[:10])
            path = os.path.join(HERE, "replays", name)
            json.dump(rec, open(path, "w"), indent=1)
            lines.append("VIOLATION property=%s replay=%s" % (prop, path))
            lines.append("  what: %s   harness: %s   params: %s   holes: %s" % (what, h, json.dumps(r["unit"])[:200], json.dumps(v["asg"])[:200]))
            status = 1
        confirmed.append(rec)

    # ---- path-witness validation against the native implementation
    wit = [(r, w) for r in results for w in r["witnesses"]]
    reqs = [dict(module=modname, h=r["unit"]["h"], params=r["unit"], asg=w["asg"]) for r, w in wit]
    resps = pool.map(reqs) if reqs else []
    pool.close()
    validated = 0
    for (r, w), resp in zip(wit, resps):
        if resp.get("error") or resp.get("exc") or resp.get("assume_failed") or resp.get("failed"):
            engine_errors.append("witness validation: native run of an explored passing path differs: unit=%s asg=%s resp=%s" % (
                json.dumps(r["unit"])[:200], json.dumps(w["asg"])[:200], json.dumps(resp)[:800]))
        elif resp["obs"] != w["obs"]:
            d = next((i for i, (x, y) in enumerate(zip(resp["obs"], w["obs"])) if x != y), None)
            engine_errors.append("witness validation: observables differ: unit=%s asg=%s first diff native=%s shadow=%s" % (
                json.dumps(r["unit"])[:200], json.dumps(w["asg"])[:200],
                json.dumps(resp["obs"][d] if d is not None else len(resp["obs"]))[:400], json.dumps(w["obs"][d] if d is not None else len(w["obs"]))[:400]))
        else:
            validated += 1

    for r in errors:
        engine_errors.append("unit %s: %s\n%s" % (json.dumps(r["unit"])[:200], r["error"], r.get("tb", "")))
    vac = [r for r in results if r["exhausted"] and r["paths"] > 0 and r["reached"] == 0]
    for r in vac:
        engine_errors.append("vacuous unit (no path reached an assertion): %s" % json.dumps(r["unit"])[:200])
    if paths == 0:
        engine_errors.append("no path explored")
    if engine_errors and status == 0:
        status = 2

    wall = time.time() - t0
    # ---- evidence
    samples = []
    for r, w in wit[:: max(1, len(wit) // 8)][:8]:
        samples.append(dict(unit=r["unit"], witness=w["asg"], decisions=w["decisions"], observables=_short(w["obs"])))
    if not samples:
        samples = [dict(unit=r["unit"]) for r in results[:3]]
    ev = dict(
        property_id=prop, tier=tier, seed=seed, level="model_checking",
        coverage=dict(
            states=max(paths, 0), transitions=sum(r["sym_decisions"] for r in results),
            traces_validated_against_impl=validated, samples=samples,
            evaluations=paths, distinct_nontrivial=sum(r["nontrivial"] for r in results),
            rule=meta.get("rule", "one evaluation = one explored path (equivalence class of inputs taking the same branches); "
                          "non-trivial = the path took at least one solver-decided branch on a symbolic value"),
            exhaustive=not unexhausted and not errors,
            units_total=len(results), units_exhausted=sum(1 for r in results if r["exhausted"]),
            units_unexhausted=[_short(r["unit"]) for r in unexhausted][:40],
            paths=paths, infeasible_paths_dropped=sum(r["aborted"] for r in results),
            assertions_reached=reached, forks=sum(r["forks"] for r in results),
            queries=sum(r["solver_checks"] for r in results), solver_time_s=round(sum(r["solver_time_s"] for r in results), 3),
            mask_decided_branches=sum(r["mask_decisions"] for r in results),
            cpu_time_s=round(sum(r["time_s"] for r in results), 1),
            bounds=meta.get("bounds", {}), functions_encoded=funcs, functions_encoded_count=len(funcs),
            source_hashes=hook.SOURCE_HASHES if len(hook.SOURCE_HASHES) < 80 else dict(list(hook.SOURCE_HASHES.items())[:80]),
            counterexamples_replayed=len(confirmed), engine_errors=[e[:600] for e in engine_errors][:20],
            known_findings=[c["known"] for c in confirmed if "known" in c],
        ),
        assumptions=meta.get("assumptions", []) + [
            "characters range over 7-bit ASCII (per-hole domains in bounds); lengths are concrete per unit",
            "unary character constraints on variables free of relational constraints are decided by exact bit-mask arithmetic; all assertions and relational constraints by z3",
            "process-global memo/tables are reset at the start of every path (harness reset())",
        ],
        wall_s=round(wall, 2), violations=sum(1 for c in confirmed if "known" not in c),
    )
    if not a.no_evidence:
        os.makedirs(os.path.join(HERE, "evidence"), exist_ok=True)
        json.dump(ev, open(os.path.join(HERE, "evidence", prop + ".json"), "w"), indent=1)
    for l in lines:
        print(l)
    for e in engine_errors[:12]:
        print("ENGINE-ERROR: " + e[:1500])
    print("%s tier=%s units=%d/%d exhausted paths=%d forks=%d z3-queries=%d validated=%d confirmed=%d wall=%.1fs explore=%.1fs -> exit %d" % (
        prop, tier, ev["coverage"]["units_exhausted"], len(results), paths, ev["coverage"]["forks"], ev["coverage"]["queries"],
        validated, len(confirmed), wall, t_explore, status))
    return status


def _short(x, n=300):
    s = json.dumps(x)
    return x if len(s) <= n else s[:n] + "..."


def replay(prop, path):
    rec = json.load(open(path))
    pool = NativePool(1)
    resp = pool.map([dict(module=rec["module"], h=rec["h"], params=rec["params"], asg=rec["asg"])])[0]
    pool.close()
    print(json.dumps(resp, indent=1)[:3000])
    if resp.get("failed") and rec["what"] in resp["failed"]:
        print("VIOLATION property=%s replay=%s" % (prop, path))
        return 1
    print("not reproduced")
    return 0


if __name__ == "__main__":
    sys.exit(main())
