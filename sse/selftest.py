"""Validation of the encoding (DESIGN 6): native-vs-shadow differential over inputs harvested from
the repository's own tests.

  python -m sse.selftest [--mode concrete|pinned|both] [--limit N] [--jobs J]

concrete: shadow strings carry real str (fast paths + hook fidelity).
pinned:   every input character is a solver variable with a singleton domain and pinning is
          switched off, so every string method / regex step runs its *symbolic* implementation;
          results must still equal native.
exit 0 = all equal, 2 = mismatch (engine error).
"""
import sys, os, json, ast, glob, time, argparse, subprocess, logging, hashlib

HERE = os.path.dirname(os.path.dirname(os.path.abspath(__file__)))
SRC = os.environ.get("FPARSER_SRC", "/repo/src")
PY = "/venv/bin/python"


def harvest():
    pairs = set()
    progs = set()
    files = glob.glob(SRC + "/fparser/two/tests/**/*.py", recursive=True) + glob.glob(SRC + "/fparser/common/tests/*.py")
    for f in sorted(files):
        try:
            tree = ast.parse(open(f).read())
        except Exception:
            continue
        for n in ast.walk(tree):
            if isinstance(n, ast.Call) and len(n.args) == 1 and isinstance(n.args[0], ast.Constant) and isinstance(n.args[0].value, str):
                fn = n.func
                name = fn.id if isinstance(fn, ast.Name) else (fn.attr if isinstance(fn, ast.Attribute) else None)
                if name and name[0].isupper():
                    pairs.add((name, n.args[0].value))
            if isinstance(n, ast.Constant) and isinstance(n.value, str) and "\n" in n.value and len(n.value) < 3000:
                progs.add(n.value)
    cases = []
    for std in ("f2003", "f2008"):
        for name, lit in sorted(pairs):
            cases.append(("cls", std, name, lit, True))
        for p in sorted(progs):
            for ic in (True, False):
                cases.append(("prog", std, "", p, ic))
    for p in sorted(progs):
        cases.append(("reader", "", "", p, False))
    return cases


def run_cases(cases, W, R, ST, pinned=False):
    """shared body, parameterised by string wrapper W, repr R and str ST"""
    from fparser.two.parser import ParserFactory
    from fparser.two import Fortran2003, Fortran2008, C99Preprocessor
    from fparser.common.readfortran import FortranStringReader
    from fparser.common import splitline
    from fparser.two.symbol_table import SYMBOL_TABLES
    from fparser.two.Fortran2008.block_stmt_r808 import Block_Stmt
    out = []
    cur = None
    memo = [c.cell_contents for c in splitline.string_replace_map.__closure__ if isinstance(c.cell_contents, dict)]
    for kind, std, name, text, ic in cases:
        if kind != "reader" and std != cur:
            P = ParserFactory().create(std=W(std, False))
            cur = std
        for d in memo:
            d.clear()
        SYMBOL_TABLES.clear()
        Block_Stmt.counter = 0      # synthetic BLOCK scope names are numbered by a process-wide counter
        try:
            if kind == "cls":
                cls = getattr(Fortran2008, name, None) if std == "f2008" else None
                cls = cls or getattr(Fortran2003, name, None) or getattr(C99Preprocessor, name, None)
                if cls is None or not isinstance(cls, type):
                    out.append(("skip",))
                    continue
                o = cls(W(text, pinned))
                r = ("ok", R(o), ST(o) if o is not None else None)
            elif kind == "prog":
                rd = FortranStringReader(W(text, pinned), ignore_comments=ic)
                o = P(rd)
                r = ("ok", R(o), ST(o))
            else:
                rd = FortranStringReader(W(text, pinned), ignore_comments=ic)
                items = []
                for it in rd:
                    items.append(R(it))
                r = ("ok", items, ST(rd.format.mode))
        except SystemExit:
            r = ("exit",)
        except RecursionError:
            r = ("exc", "RecursionError", "")
        except Exception as e:
            r = ("exc", type(e).__name__, ST(e))
        out.append(r)
    return out


def native_worker():
    logging.disable(logging.CRITICAL)
    sys.path.insert(0, SRC)
    cases = json.load(sys.stdin)
    devnull = open(os.devnull, "w")
    real = sys.stdout
    sys.stdout = devnull
    res = run_cases([tuple(c) for c in cases], lambda s, p: s, repr, str)
    sys.stdout = real
    json.dump(res, sys.stdout)


def shadow_chunk(args):
    cases, pinned = args
    import sse.core as core
    core.set_engine(core.Engine())
    eng = core.ENG

    def W(s, pin):
        if not pin:
            return core.S(s)
        cs = []
        for ch in s:
            o = ord(ch)
            cs.append(eng.fresh("p", 1 << o) if o < 128 else o)
        return core.mk_nopin(cs)

    def R(o):
        return _conc(core.rrepr(o))

    def ST(o):
        return _conc(core.S(o))

    def _conc(x):
        if core.isS(x):
            return core.concretize(x, [d.bit_length() - 1 for d in eng.dom])
        if isinstance(x, (list, tuple)):
            return [_conc(i) for i in x]
        return x

    out = []
    for c in cases:
        eng.reset_path([])
        eng.pending = []
        core.PIN = not pinned
        try:
            out.append(run_cases([c], W, lambda o: _conc(core.rrepr(o)) if not isinstance(o, list) else o, ST, pinned)[0])
        except core.Unsupported as u:
            out.append(("unsupported", str(u)))
        except BaseException as e:
            out.append(("engine-exc", type(e).__name__, str(e)[:300]))
        finally:
            core.PIN = True
    return out


def main():
    ap = argparse.ArgumentParser()
    ap.add_argument("--mode", default="both")
    ap.add_argument("--limit", type=int, default=0)
    ap.add_argument("--jobs", type=int, default=16)
    ap.add_argument("--native-worker", action="store_true")
    ap.add_argument("--stride", type=int, default=1)
    a = ap.parse_args()
    if a.native_worker:
        return native_worker()
    logging.disable(logging.CRITICAL)
    t0 = time.time()
    cases = harvest()
    if a.stride > 1:
        cases = cases[:: a.stride]
    if a.limit:
        cases = cases[: a.limit]
    J = a.jobs
    chunks = [cases[i::J] for i in range(J)]
    env = dict(os.environ, PYTHONPATH=HERE + os.pathsep + SRC)
    procs = [subprocess.Popen([PY, "-m", "sse.selftest", "--native-worker"], stdin=subprocess.PIPE, stdout=subprocess.PIPE,
                              stderr=subprocess.DEVNULL, env=env, cwd=HERE, text=True) for _ in chunks]
    for p, ch in zip(procs, chunks):
        p.stdin.write(json.dumps(ch))
        p.stdin.close()
    sys.path[:0] = [HERE, os.path.join(HERE, ".deps")]
    import sse.core as core, sse.hook as hook
    hook.install(SRC)
    core.set_engine(core.Engine())
    import fparser.two.parser, fparser.two.Fortran2008, fparser.two.C99Preprocessor  # noqa: load before fork
    import multiprocessing as mp
    modes = ["concrete", "pinned"] if a.mode == "both" else [a.mode]
    shadow = {}
    with mp.get_context("fork").Pool(J) as pool:
        for m in modes:
            shadow[m] = pool.map(shadow_chunk, [(ch, m == "pinned") for ch in chunks])
    native = [json.load(p.stdout) for p in procs]
    status = 0
    for m in modes:
        bad = 0
        uns = 0
        n = 0
        for ci, ch in enumerate(chunks):
            for c, rn, rs in zip(ch, native[ci], shadow[m][ci]):
                n += 1
                rn = json.loads(json.dumps(rn))
                rs = json.loads(json.dumps(rs))
                if rn != rs:
                    bad += 1
                    if rs and rs[0] == "unsupported":
                        uns += 1
                    if bad <= 8:
                        print("MISMATCH[%s] %s" % (m, json.dumps(c)[:300]))
                        print("   native: %s" % json.dumps(rn)[:4000])
                        print("   shadow: %s" % json.dumps(rs)[:4000])
        print("selftest mode=%s cases=%d mismatches=%d (unsupported=%d)" % (m, n, bad, uns))
        if bad:
            status = 2
    print("selftest wall=%.1fs" % (time.time() - t0))
    return status


if __name__ == "__main__":
    sys.exit(main())
