"""Shadow `re`: delegates to CPython's re on concrete subjects; on symbolic subjects runs a
backtracking matcher over re._parser's parse tree, forking on every test "symbolic char in class"
(priority/greedy semantics are therefore those of the backtracking engine on each path)."""
import re as _re
import re._parser as sp
from . import core
from .core import (S, SC, Unsupported, cclass, ceq, sb_not, isS, conc, wrap, to_S, _issymarg)

_CS_CACHE = {}


def _lit_ranges(code, flags):
    if flags & _re.I and code < 128:
        ch = chr(code)
        return tuple(sorted({(ord(ch.lower()),) * 2, (ord(ch.upper()),) * 2}))
    return ((code, code),)


_NEGCAT = {sp.CATEGORY_NOT_DIGIT: sp.CATEGORY_DIGIT, sp.CATEGORY_NOT_SPACE: sp.CATEGORY_SPACE,
           sp.CATEGORY_NOT_WORD: sp.CATEGORY_WORD}


def _cat_ranges(cat):
    if cat is sp.CATEGORY_DIGIT:
        return ((48, 57),)
    if cat is sp.CATEGORY_SPACE:
        return ((9, 13), (28, 32))
    if cat is sp.CATEGORY_WORD:
        return ((48, 57), (65, 90), (95, 95), (97, 122))
    if cat in _NEGCAT:
        pos = sorted(_cat_ranges(_NEGCAT[cat]))
        out = []
        lo = 0
        for a, b in pos:
            if a > lo:
                out.append((lo, a - 1))
            lo = b + 1
        if lo <= 127:
            out.append((lo, 127))
        return tuple(out)
    raise Unsupported("regex category %s" % cat)


def _charset(items, flags):
    """(ranges, negated) for an IN node"""
    k = (id(items), flags & _re.I)
    r = _CS_CACHE.get(k)
    if r is not None and r[2] is items:
        return r[0], r[1]
    its = list(items)
    neg = bool(its) and its[0][0] is sp.NEGATE
    if neg:
        its = its[1:]
    ranges = []
    for op, arg in its:
        if op is sp.LITERAL:
            ranges += _lit_ranges(arg, flags)
        elif op is sp.RANGE:
            lo, hi = arg
            ranges.append((lo, hi))
            if flags & _re.I:
                for a in range(lo, min(hi, 127) + 1):
                    ch = chr(a)
                    for b in (ord(ch.lower()), ord(ch.upper())):
                        if b < 128 and not (lo <= b <= hi):
                            ranges.append((b, b))
        elif op is sp.CATEGORY:
            ranges += _cat_ranges(arg)
        else:
            raise Unsupported("regex IN item %s" % op)
    ranges = tuple(ranges)
    _CS_CACHE[k] = (ranges, neg, items)
    return ranges, neg


class _M:
    __slots__ = ("end", "groups")

    def __init__(self, end, groups):
        self.end, self.groups = end, groups


_WORD = ((48, 57), (65, 90), (95, 95), (97, 122))


def _match(nodes, idx, cs, pos, flags, groups, k):
    """continuation-passing backtracking: match nodes[idx:] at pos then call k(pos, groups)"""
    while True:
        if idx == len(nodes):
            return k(pos, groups)
        op, arg = nodes[idx]
        n = len(cs)
        if op is sp.LITERAL:
            if pos >= n:
                return None
            c = cs[pos]
            if type(c) is not SC and not (flags & _re.I):
                if c != arg:
                    return None
            elif not cclass(c, _lit_ranges(arg, flags)):
                return None
            pos += 1
            idx += 1
            continue
        if op is sp.NOT_LITERAL:
            if pos >= n:
                return None
            if cclass(cs[pos], _lit_ranges(arg, flags)):
                return None
            pos += 1
            idx += 1
            continue
        if op is sp.ANY:
            if pos >= n:
                return None
            if not (flags & _re.S) and ceq(cs[pos], 10):
                return None
            pos += 1
            idx += 1
            continue
        if op is sp.IN:
            if pos >= n:
                return None
            ranges, neg = _charset(arg, flags)
            r = cclass(cs[pos], ranges) if ranges else False
            if neg:
                r = sb_not(r)
            if not r:
                return None
            pos += 1
            idx += 1
            continue
        if op is sp.CATEGORY:
            if pos >= n:
                return None
            if not cclass(cs[pos], _cat_ranges(arg)):
                return None
            pos += 1
            idx += 1
            continue
        break

    def nxt(p, g):
        return _match(nodes, idx + 1, cs, p, flags, g, k)

    if op is sp.BRANCH:
        for alt in arg[1]:
            r = _match(list(alt) + [("_JUMP", (nodes, idx + 1))], 0, cs, pos, flags, groups, k)
            if r is not None:
                return r
        return None
    if op == "_JUMP":
        nn, ii = arg
        return _match(nn, ii, cs, pos, flags, groups, k)
    if op is sp.SUBPATTERN:
        gid, add, dele, sub = arg
        f2 = (flags | add) & ~dele

        def after(p, g):
            if gid is not None:
                g = dict(g)
                g[gid] = (pos, p)
            return _match(nodes, idx + 1, cs, p, flags, g, k)

        return _match(list(sub), 0, cs, pos, f2, groups, after)
    if op in (sp.MAX_REPEAT, sp.MIN_REPEAT, sp.POSSESSIVE_REPEAT):
        if op is sp.POSSESSIVE_REPEAT:
            raise Unsupported("possessive repeat")
        lo, hi, sub = arg
        sub = list(sub)
        greedy = op is sp.MAX_REPEAT

        def rep(count, p, g):
            def more():
                if hi is not sp.MAXREPEAT and count >= hi:
                    return None

                def after(p2, g2):
                    if p2 == p and count >= lo:
                        return None  # no progress
                    return rep(count + 1, p2, g2)

                return _match(sub, 0, cs, p, flags, g, after)

            def stop():
                return nxt(p, g) if count >= lo else None

            if greedy:
                r = more()
                return r if r is not None else stop()
            r = stop()
            return r if r is not None else more()

        return rep(0, pos, groups)
    if op is sp.AT:
        if arg in (sp.AT_BEGINNING, sp.AT_BEGINNING_STRING):
            ok = pos == 0
            if not ok and arg is sp.AT_BEGINNING and flags & _re.M:
                ok = bool(ceq(cs[pos - 1], 10))
            return nxt(pos, groups) if ok else None
        if arg is sp.AT_END_STRING:
            return nxt(pos, groups) if pos == n else None
        if arg is sp.AT_END:
            ok = pos == n or (pos == n - 1 and bool(ceq(cs[pos], 10)))
            if not ok and flags & _re.M:
                ok = bool(ceq(cs[pos], 10))
            return nxt(pos, groups) if ok else None
        if arg in (sp.AT_BOUNDARY, sp.AT_NON_BOUNDARY):
            a = bool(cclass(cs[pos - 1], _WORD)) if pos > 0 else False
            b = bool(cclass(cs[pos], _WORD)) if pos < n else False
            ok = (a != b) if arg is sp.AT_BOUNDARY else (a == b)
            return nxt(pos, groups) if ok else None
        raise Unsupported("regex AT %s" % arg)
    if op in (sp.ASSERT, sp.ASSERT_NOT):
        direction, sub = arg
        subl = list(sub)
        if direction == 1:
            r = _match(subl, 0, cs, pos, flags, groups, lambda p, g: _M(p, g))
        else:
            lo, hi = sub.getwidth()
            if lo != hi:
                raise Unsupported("variable-width lookbehind")
            r = None if pos - lo < 0 else _match(subl, 0, cs, pos - lo, flags, groups,
                                                 lambda p, g: (_M(p, g) if p == pos else None))
        if (r is not None) == (op is sp.ASSERT):
            return nxt(pos, r.groups if (r is not None and op is sp.ASSERT) else groups)
        return None
    if op is sp.GROUPREF:
        raise Unsupported("backreference")
    raise Unsupported("regex op %s" % op)


class RMatch:
    def __init__(self, pat, subj, cs, start, end, groups, native=None):
        self.re, self.string, self._cs, self._s, self._e, self._g, self._n = pat, subj, cs, start, end, groups, native

    def _span(self, g=0):
        if isS(g) or isinstance(g, str):
            g = self.re._p.groupindex[conc(g)]
        if self._n is not None:
            return self._n.span(g)
        if g == 0:
            return (self._s, self._e)
        if g > self.re._p.groups:
            raise IndexError("no such group")
        return self._g.get(g, (-1, -1))

    def span(self, g=0):
        return self._span(g)

    def start(self, g=0):
        return self._span(g)[0]

    def end(self, g=0):
        return self._span(g)[1]

    def _grp(self, g):
        a, b = self._span(g)
        if a < 0:
            return None
        return self.string[a:b] if isS(self.string) else S(self.string[a:b])

    def group(self, *gs):
        if not gs:
            return self._grp(0)
        if len(gs) == 1:
            return self._grp(gs[0])
        return tuple(self._grp(g) for g in gs)

    def __getitem__(self, g):
        return self._grp(g)

    def groups(self, default=None):
        return tuple((self._grp(i) if self._span(i)[0] >= 0 else default) for i in range(1, self.re._p.groups + 1))

    def groupdict(self, default=None):
        return core.mkdict([S(k) for k in self.re._p.groupindex],
                           [(self._grp(i) if self._span(i)[0] >= 0 else default) for i in self.re._p.groupindex.values()])

    @property
    def lastindex(self):
        if self._n is not None:
            return self._n.lastindex
        raise Unsupported("lastindex")

    @property
    def pos(self):
        return 0

    @property
    def endpos(self):
        return len(self.string)


class RPattern:
    def __init__(self, p):
        self._p = p
        self._tree = None

    @property
    def pattern(self):
        return S(self._p.pattern)

    @property
    def flags(self):
        return self._p.flags

    @property
    def groups(self):
        return self._p.groups

    @property
    def groupindex(self):
        return {S(k): v for k, v in self._p.groupindex.items()}

    def _nodes(self):
        if self._tree is None:
            self._tree = list(sp.parse(self._p.pattern, self._p.flags))
        return self._tree

    def _sym(self, s):
        if _issymarg(s):
            # may have become concrete through pinning
            r = core.mk(s.cs)
            return r.v is None
        return False

    def _at(self, s, pos, full=False, endpos=None, nonempty=False):
        cs = s.cs if s.v is None else tuple(map(ord, s.v))
        if endpos is not None:
            cs = cs[:endpos]

        def fin(p, g):
            if nonempty and p == pos:
                return None
            return _M(p, g) if (not full or p == len(cs)) else None

        r = _match(self._nodes(), 0, cs, pos, self._p.flags, {}, fin)
        return None if r is None else RMatch(self, s, cs, pos, r.end, r.groups)

    def _wrapm(self, m, s):
        return None if m is None else RMatch(self, s, None, 0, 0, None, native=m)

    def match(self, s, pos=0, endpos=None):
        if not self._sym(s):
            return self._wrapm(self._p.match(conc(s), pos, *([endpos] if endpos is not None else [])), s)
        return self._at(s, pos, endpos=endpos)

    def fullmatch(self, s, pos=0, endpos=None):
        if not self._sym(s):
            return self._wrapm(self._p.fullmatch(conc(s), pos, *([endpos] if endpos is not None else [])), s)
        return self._at(s, pos, full=True, endpos=endpos)

    def search(self, s, pos=0, endpos=None):
        if not self._sym(s):
            return self._wrapm(self._p.search(conc(s), pos, *([endpos] if endpos is not None else [])), s)
        n = len(s) if endpos is None else min(endpos, len(s))
        for i in range(pos, n + 1):
            m = self._at(s, i, endpos=endpos)
            if m is not None:
                return m
        return None

    def finditer(self, s):
        if not self._sym(s):
            return [self._wrapm(m, s) for m in self._p.finditer(conc(s))]
        out = []
        start = 0
        n = len(s)
        must_advance = False
        while start <= n:
            m = None
            for i in range(start, n + 1):
                m = self._at(s, i, nonempty=(must_advance and i == start))
                if m is not None:
                    break
            if m is None:
                break
            out.append(m)
            must_advance = m.end() == m.start()
            start = m.end()
        return out

    def findall(self, s):
        out = []
        g = self._p.groups
        for m in self.finditer(s):
            if g == 0:
                out.append(m.group())
            elif g == 1:
                out.append(m.group(1) if m.start(1) >= 0 else S(""))
            else:
                out.append(tuple((m.group(i) if m.start(i) >= 0 else S("")) for i in range(1, g + 1)))
        return out

    def split(self, s, maxsplit=0):
        if not self._sym(s):
            return wrap(self._p.split(conc(s), maxsplit))
        out = []
        last = 0
        n = 0
        for m in self.finditer(s):
            if maxsplit and n >= maxsplit:
                break
            out.append(s[last:m.start()])
            for i in range(1, self._p.groups + 1):
                out.append(m.group(i))
            last = m.end()
            n += 1
        out.append(s[last:])
        return out

    def sub(self, repl, s, count=0):
        return self.subn(repl, s, count)[0]

    def subn(self, repl, s, count=0):
        if not self._sym(s) and not callable(repl) and not self._sym(repl):
            r, n = self._p.subn(conc(repl), conc(s), count)
            return S(r), n
        s = to_S(s)
        if not self._sym(s) and callable(repl):
            # run the callable with wrapped matches; result may be symbolic
            pieces = []
            last = 0
            n = 0
            sv = conc(s)
            for m in self._p.finditer(sv):
                if count and n >= count:
                    break
                pieces.append(S(sv[last:m.start()]))
                pieces.append(to_S(repl(self._wrapm(m, s))))
                last = m.end()
                n += 1
            pieces.append(S(sv[last:]))
            return S("").join(pieces), n
        out = []
        last = 0
        n = 0
        if not callable(repl):
            rv = conc(repl)
            if "\\" in rv:
                tmpl = rv
                def repl(m, tmpl=tmpl):
                    return _expand(m, tmpl)
        for m in self.finditer(s):
            if count and n >= count:
                break
            out.append(s[last:m.start()])
            out.append(to_S(repl(m)) if callable(repl) else to_S(repl))
            last = m.end()
            n += 1
        out.append(s[last:])
        return S("").join(out), n


def _expand(m, tmpl):
    out = []
    i = 0
    while i < len(tmpl):
        c = tmpl[i]
        if c == "\\" and i + 1 < len(tmpl):
            d = tmpl[i + 1]
            if d.isdigit():
                out.append(m.group(int(d)) or S(""))
                i += 2
                continue
            if d == "g":
                j = tmpl.index(">", i)
                name = tmpl[i + 3:j]
                out.append(m.group(int(name) if name.isdigit() else name) or S(""))
                i = j + 1
                continue
            out.append(S({"n": "\n", "t": "\t", "\\": "\\"}.get(d, "\\" + d)))
            i += 2
            continue
        out.append(S(c))
        i += 1
    return S("").join(out)


class REMod:
    I = IGNORECASE = _re.I
    M = MULTILINE = _re.M
    S = DOTALL = _re.S
    X = VERBOSE = _re.X
    A = ASCII = _re.A
    U = UNICODE = _re.U
    error = _re.error
    Pattern = RPattern
    Match = RMatch
    _cache = {}

    @staticmethod
    def compile(p, flags=0):
        if isinstance(p, RPattern):
            return p
        key = (conc(p), int(flags))
        r = REMod._cache.get(key)
        if r is None:
            r = REMod._cache[key] = RPattern(_re.compile(key[0], flags))
        return r

    @staticmethod
    def match(p, s, flags=0):
        return REMod.compile(p, flags).match(s)

    @staticmethod
    def search(p, s, flags=0):
        return REMod.compile(p, flags).search(s)

    @staticmethod
    def fullmatch(p, s, flags=0):
        return REMod.compile(p, flags).fullmatch(s)

    @staticmethod
    def split(p, s, maxsplit=0, flags=0):
        return REMod.compile(p, flags).split(s, maxsplit)

    @staticmethod
    def findall(p, s, flags=0):
        return REMod.compile(p, flags).findall(s)

    @staticmethod
    def finditer(p, s, flags=0):
        return iter(REMod.compile(p, flags).finditer(s))

    @staticmethod
    def sub(p, repl, s, count=0, flags=0):
        return REMod.compile(p, flags).sub(repl, s, count)

    @staticmethod
    def subn(p, repl, s, count=0, flags=0):
        return REMod.compile(p, flags).subn(repl, s, count)

    @staticmethod
    def escape(s):
        return S(_re.escape(conc(s)))
