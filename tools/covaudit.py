"""Catalogue audit: which lines of the rule classes' match()/tostr() methods does the union of the
valid inputs used by the checks (catalogue programs, the tests' rule-level texts, corpus programs)
never execute?  Plain native run under coverage.py; used to decide which templates to add.
usage: PYTHONPATH=/verif:/repo/src /venv/bin/python tools/covaudit.py"""
import sys, os, ast
import coverage

SRC = os.environ.get("FPARSER_SRC", "/repo/src")
cov = coverage.Coverage(include=[SRC + "/fparser/two/*", SRC + "/fparser/common/*"], omit=["*/tests/*"], branch=False, data_file=None)
cov.start()
from fparser.two.parser import ParserFactory
from fparser.common.readfortran import FortranStringReader
from vh import progs as PG, gen as G
from sse import harvest as H

n_ok = n_bad = 0


def run(src, std):
    global n_ok, n_bad
    try:
        t = ParserFactory().create(std=std)(FortranStringReader(src, ignore_comments=False))
        str(t)
        repr(t)
        n_ok += 1
    except BaseException:
        n_bad += 1


for p in PG.programs('quick'):
    src = G.program_text(p, {})
    run(src, "f2008" if G.is_f08(p) else "f2003")
    run(src, "f2008")
for e in H.corpus():
    run(e["text"] if isinstance(e, dict) else e, "f2008")
import fparser.two.Fortran2003 as F3
import fparser.two.Fortran2008 as F8
for std in ("f2003", "f2008"):
    ParserFactory().create(std=std)
    for name, text in H.cls_pairs():
        cls = getattr(F8 if std == "f2008" else F3, name, None) or getattr(F3, name, None)
        if cls is None:
            continue
        try:
            o = cls(text)
            str(o)
            repr(o)
            n_ok += 1
        except BaseException:
            n_bad += 1
cov.stop()
print("inputs ok", n_ok, "rejected", n_bad)
data = cov.get_data()
import glob
files = sorted(glob.glob(SRC + "/fparser/two/Fortran2003.py") + glob.glob(SRC + "/fparser/two/Fortran2008/*.py") + glob.glob(SRC + "/fparser/two/C99Preprocessor.py"))
want = sys.argv[1:] or ["tostr", "match", "tofortran", "restore_reader", "get_end_name", "get_start_name"]
tot = miss = 0
for f in files:
    try:
        _, stmts, _, missing, _ = cov.analysis2(f)
    except Exception:
        continue
    missing = set(missing)
    tree = ast.parse(open(f).read())
    for cls in [n for n in tree.body if isinstance(n, ast.ClassDef)]:
        for fn in [n for n in cls.body if isinstance(n, ast.FunctionDef) and n.name in want]:
            lines = [l for l in range(fn.lineno, fn.end_lineno + 1) if l in set(stmts)]
            m = [l for l in lines if l in missing]
            tot += len(lines)
            miss += len(m)
            if m:
                print("%s:%s.%s  missed %d/%d: %s" % (os.path.basename(f), cls.name, fn.name, len(m), len(lines), m[:12]))
print("total statements in audited methods", tot, "never executed", miss)
