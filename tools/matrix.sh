#!/bin/sh
# runs each seeded change against the check of the property it targets; writes seeded/RESULTS.tsv
HERE="$(cd "$(dirname "$0")/.." && pwd)"
OUT="${1:-$HERE/seeded/RESULTS.tsv}"
: > "$OUT"
for d in "$HERE"/seeded/C[0-9][0-9]-*; do
  name=$(basename "$d"); prop=${name%-*}
  res=$(VERIF_JOBS=${VERIF_JOBS:-16} timeout 1500 "$HERE/bin/mut-run" "$name" "$prop" 2>&1 | grep -v KNOWN-FINDING)
  rc=$(echo "$res" | grep "^mut-run" | sed 's/.*exit //')
  what=$(echo "$res" | grep "what:" | head -1 | sed 's/harness:.*//' | cut -c1-160)
  printf "%s\t%s\t%s\t%s\n" "$name" "$prop" "${rc:-timeout}" "$what" >> "$OUT"
done
echo done
