#!/usr/bin/env python3
"""Builds vh/corpus.json: multi-line program texts harvested from the repository's own tests that
the pristine fparser2 accepts (per standard) and round-trips.  Run natively at development time:
    PYTHONPATH=/repo/src:/verif /venv/bin/python tools/mkcorpus.py
The checks use these texts as additional members of the valid class (one symbolic letter/digit)."""
import ast, glob, json, os, sys, logging
logging.disable(logging.CRITICAL)
SRC = os.environ.get("FPARSER_SRC", "/repo/src")
sys.path[:0] = [SRC]
from fparser.two.parser import ParserFactory
from fparser.common.readfortran import FortranStringReader
from fparser.two.Fortran2008.block_stmt_r808 import Block_Stmt
from fparser.two.symbol_table import SYMBOL_TABLES

progs = set()
for f in sorted(glob.glob(SRC + "/fparser/two/tests/**/*.py", recursive=True) + glob.glob(SRC + "/fparser/common/tests/*.py")):
    try:
        tree = ast.parse(open(f).read())
    except Exception:
        continue
    for n in ast.walk(tree):
        if isinstance(n, ast.Constant) and isinstance(n.value, str) and "\n" in n.value and 10 < len(n.value) < 1500 and n.value.isascii():
            progs.add(n.value)


def rt(src, std):
    Block_Stmt.counter = 0
    p = ParserFactory().create(std=std)
    t = p(FortranStringReader(src))
    s1 = str(t)
    Block_Stmt.counter = 0
    p = ParserFactory().create(std=std)
    t2 = p(FortranStringReader(s1))
    return s1 == str(t2) and repr(t) == repr(t2) and len(s1.strip()) > 0


out = []
for src in sorted(progs):
    if "#" in src or "\t" in src or "include" in src.lower():
        continue       # layout / include / cpp features are the subject of other properties
    if src.lstrip(" \n")[:1].isdigit() or src.startswith("      ") and not src.lstrip().lower().startswith(("program", "module", "subroutine", "function")):
        pass
    ok = {}
    for std in ("f2003", "f2008"):
        try:
            ok[std] = bool(rt(src, std))
        except BaseException:
            ok[std] = False
    if ok["f2008"]:
        # positions (inside names / numbers) where a letter or digit can be replaced without leaving the valid class
        import re
        spots = []
        for m in re.finditer(r"[A-Za-z0-9_]+", src):
            w = m.group()
            for k in (0, len(w) - 1):
                i = m.start() + k
                ch = src[i]
                if ch == "_":
                    continue
                alts = "73" if ch.isdigit() else ("QZ" if ch.isupper() else "qz")
                good = True
                for a in alts:
                    if a == ch:
                        continue
                    try:
                        good = good and bool(rt(src[:i] + a + src[i + 1:], "f2008"))
                    except BaseException:
                        good = False
                    if not good:
                        break
                if good and [i, m.start(), m.end()] not in spots:
                    spots.append([i, m.start(), m.end()])
        if spots:
            out.append(dict(text=src, f2003=ok["f2003"], spots=spots))
json.dump(out, open(os.path.join(os.path.dirname(os.path.dirname(os.path.abspath(__file__))), "vh", "corpus.json"), "w"), indent=0)
print(len(progs), "harvested,", len(out), "kept,", sum(1 for o in out if o["f2003"]), "also f2003")
