#!/usr/bin/env python3
"""Builds vh/corpus1.json: statements used by fparser1's own tests (parse(Cls, "text") calls in
one/tests/test_parser.py) that round-trip through fparser.api.parse on the pristine tree when placed
in a subroutine.  Run natively at development time:
    PYTHONPATH=/repo/src /venv/bin/python tools/mkcorpus1.py"""
import ast, json, os, sys, logging, re
logging.disable(logging.CRITICAL)
SRC = os.environ.get("FPARSER_SRC", "/repo/src")
sys.path[:0] = [SRC]
from fparser import api

stmts = []
tree = ast.parse(open(SRC + "/fparser/one/tests/test_parser.py").read())
for n in ast.walk(tree):
    if isinstance(n, ast.Call) and isinstance(n.func, ast.Name) and n.func.id == "parse" and len(n.args) >= 2:
        a = n.args[1]
        if isinstance(a, ast.Constant) and isinstance(a.value, str) and a.value.isascii() and "\n" not in a.value and a.value not in stmts:
            stmts.append(a.value)


def body(s):
    return [l.strip() for l in s.split("\n") if l.strip() and not l.strip().startswith("!")]


def rt(stmt):
    src = "subroutine s\n  " + stmt + "\nend subroutine s\n"
    t = api.parse(src, isfree=True, isstrict=False, analyze=False, ignore_comments=True)
    s1 = str(t)
    t2 = api.parse(s1, isfree=True, isstrict=False, analyze=False, ignore_comments=True)
    b1, b2 = body(s1), body(str(t2))
    return b1 == b2 and len(b1) == 3


out = []
for st in stmts:
    try:
        ok = rt(st)
    except BaseException:
        ok = False
    if not ok:
        continue
    spots = []
    for m in re.finditer(r"[A-Za-z0-9_]+", st):
        w = m.group()
        for k in (0, len(w) - 1):
            i = m.start() + k
            ch = st[i]
            if ch == "_":
                continue
            alts = "73" if ch.isdigit() else ("QZ" if ch.isupper() else "qz")
            good = True
            for a in alts:
                if a == ch:
                    continue
                try:
                    good = good and rt(st[:i] + a + st[i + 1:])
                except BaseException:
                    good = False
                if not good:
                    break
            if good and [i, m.start(), m.end()] not in spots:
                spots.append([i, m.start(), m.end()])
    if spots:
        out.append(dict(text=st, spots=spots))
json.dump(out, open(os.path.join(os.path.dirname(os.path.dirname(os.path.abspath(__file__))), "vh", "corpus1.json"), "w"), indent=0)
print(len(stmts), "statements,", len(out), "kept,", sum(len(o["spots"]) for o in out), "spots")
