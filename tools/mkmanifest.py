#!/usr/bin/env python3
"""regenerates MANIFEST.json from the table below"""
import json, os
HERE = os.path.dirname(os.path.dirname(os.path.abspath(__file__)))
props = [json.loads(l) for l in open(os.path.join(HERE, "properties.jsonl"))]
TB = ("trusted: the shadow runtime's model of str/re/dict semantics (validated by the native differential selftest and by per-run native replay "
      "of path witnesses), z3; the claim is limited to the units and bounds listed in the evidence (7-bit ASCII, stated lengths)")
TECH = "symbolic execution of the real Python source over symbolic characters; assertions decided by z3 (unary character constraints by an exact bit-mask procedure cross-checked against z3); counterexamples replayed natively"
CLAIMED = {
 "C01": "bounded symbolic execution of the real reader+parser+printer: every catalogue program with one symbolic lexeme (all names/digits/labels/literal bodies of the stated length) is parsed, printed, re-parsed, re-printed on every feasible path; fixpoint assertions decided by z3",
 "C02": "token sequence of the printed text vs the source's, computed by an independent lexer that runs symbolically on both; tokenisation kernels (splitquote, splitparen, string_replace_map and inverse) exhausted over all ASCII strings up to the stated length",
 "C03": "all expression trees up to the stated depth over all operator spellings, rendered with minimal parentheses, symbolic operands and operator case; fparser's grouping compared with a reference derived from the standard's grammar",
 "C04": "a statement of every catalogue program laid out in other standard-conforming free-form ways (continued at token boundaries / inside tokens / inside character literals, leading '&' or not, trailing comment, blank or comment line between parts, ';' join, indentation, symbolic letter case); tree compared with the canonical layout's tree; reader kernel: every text of <= 6-7 characters over quotes, '!', ';' and a letter gives the same statements in the ';' layout and on separate lines",
 "C05": "catalogue programs rendered in fixed form with one statement wrapped at a chosen position, symbolic column-6 continuation mark, symbolic comment introducer, left/right justified labels; detector must answer fixed and the tree must equal the free-form tree; symbolic label fields for the detector",
 "C06": "arbitrary short texts (every character symbolic) and every catalogue program with one character position replaced by / preceded by a symbolic character or deleted/duplicated; outcome must be a tree or FortranSyntaxError; per-path wall-clock limit detects non-termination; codec error handler checked for progress",
 "C07": "every statement of every catalogue program replaced by symbolic garbage on one or two physical lines; the error message's line number and quoted text compared (z3 equality on the symbolic message) with the known last line of the statement",
 "C08": "structural edits (delete opener / END, surplus END, END name := symbolic different name, delete/insert one parenthesis outside character context) of every construct in several contexts; each edited program must raise",
 "C09": "every history of length <= 2 (3 thorough) over {create(f2003), create(f2008), parse(valid_i), parse(invalid_j)} followed by create(s); parse(x) compared with a hard-reset run (tree, text, symbol tables), unit names symbolic so that name coincidences across parses are decided by the solver; scope/table checks after every failing parse; memoised tokenisation vs the un-memoised function on symbolic lines",
 "C10": "same exploration as C01; on every path (every back-tracking pattern the symbolic lexeme can provoke) the tree and the re-parsed tree satisfy the parent/children/root/walk invariants",
 "C11": "comments inserted at every line boundary and on every line of catalogue programs (1-2 per program, also inside continued statements), first comment text symbolic; comment nodes in order with unchanged text, once in the regenerated text, ignored comments change nothing, Directive nodes exactly on directive-form full-line comments; reader kernel: for every text of <= 7-8 characters over both quote kinds, '!', a letter and a blank the trailing comment starts at the first '!' outside a character context",
 "C12": "reader-level: every catalogue statement continued at every split point with comments/blank lines/';'; expected items (text modulo blanks outside literals, label, construct name, span, comments in order) known by construction from an independent layout oracle; symbolic get/put/look-ahead schedules over streams",
 "C13": "runs of statements moved into (nested) include files in a virtual file system (temporary directory natively), include line spelling and file name symbolic, file in first/second/both include directories with decoys; tree equality with the original text; absent files keep an Include_Stmt",
 "C14": "preprocessor directives of all kinds (incl. backslash continuations over 2-3 lines) inserted at every statement boundary, payload identifier symbolic; tree without directive nodes equals the original tree, directive nodes in order with equal content and present in the regenerated text",
 "C15": "simple statements hidden behind OpenMP conditional sentinels in free and fixed form, continued over one or two sentinel lines; symbolic character after '!$' (decides conditional line vs comment), sentinel letter, column 6, continuation mark; trees compared with the sentinel-blanked / statement-removed programs",
 "C16": "scope shapes (program, module with contained subprograms, BLOCK, internal function, external subprograms, nesting of three) x every subset of declaring scopes; the declared/referenced name symbolic (all names of length 3, 4 for the single-scope shape) and unit-name case symbolic; table tree vs scope tree by construction; intrinsic classification vs visibility of declarations",
 "C17": "differential symbolic execution: the same symbolic program through the f2003 and f2008 registries inside one path; acceptance implication and text equality decided by z3",
 "C18": "real copy.deepcopy and pickle round trip on every explored path; equality of printed text and structure for all lexemes decided by z3; class coverage from the catalogue",
 "C19": "fparser1 (fparser.api.parse): catalogue programs of the F77/F90 subset and all nestings of its block constructs, one symbolic lexeme, free and fixed form, analyze on/off; second round trip equal, block structure equal, tokens of the regenerated source equal the program's (case-insensitively)",
 "C20": "count of Base.__new__ activations for size-indexed families at n and 2n with symbolic labels / names (every label equality pattern); doubling ratio and absolute polynomial budget with an attempt cap",
}
NA = {}
def chk(pid):
    return {"property_id": pid, "quick_cmd": "bin/check %s --tier quick" % pid, "thorough_cmd": "bin/check %s --tier thorough" % pid,
            "evidence_file": "evidence/%s.json" % pid, "replay_cmd_template": "bin/check %s --replay {path}" % pid, "engine": "S",
            "level_claimed": {"category": "model_checking", "text": CLAIMED[pid], "design_ref": "DESIGN.md section 6 (row %s), bounds in evidence/%s.json" % (pid, pid)},
            "level_note": TB, "technique": TECH}
m = {"version": 1, "setup_cmd": "bin/setup",
     "hooks": {"guard": "FPARSER_VERIF", "enable": "no source hooks: fparser is loaded from /repo/src (or $FPARSER_SRC) through an AST-rewriting import hook (sse/hook.py) at run time",
               "baseline_off_cmd": "cd /repo && /venv/bin/python -m pytest -ra -q -p no:cacheprovider --timeout=900 --continue-on-collection-errors",
               "source_commits": [], "add_only": True},
     "engines": [{"name": "S", "path": "sse/", "serves_properties": sorted(CLAIMED),
                  "kind_free_text": "shadow-string symbolic execution of the real fparser source (AST import hook); path conditions decided by z3 + exact bit-mask procedure for unary character constraints; DFS over all feasible paths per bounded unit; native replay of counterexamples and of sampled path witnesses"}],
     "checks": [chk(k) for k in sorted(CLAIMED)],
     "notes": "fix: commits in /repo (genuine defects found by these checks) are listed in known_findings.json under 'fixed'",
     "not_applicable": [{"property_id": p["id"], "reason": NA.get(p["id"], "check under construction in this session (engine S harness not landed yet)")} for p in props if p["id"] not in CLAIMED]}
json.dump(m, open(os.path.join(HERE, "MANIFEST.json"), "w"), indent=1)
print("checks:", sorted(CLAIMED))
