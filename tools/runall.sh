#!/bin/sh
# runs every check of the given tier in sequence; summary lines to tools/runall-<tier>.log
HERE="$(cd "$(dirname "$0")/.." && pwd)"
TIER="${1:-quick}"; shift
LOG="$HERE/tools/runall-$TIER.log"; : > "$LOG"
for i in ${@:-01 02 03 04 05 06 07 08 09 10 11 12 13 14 15 16 17 18 19 20}; do
  "$HERE/bin/check" C$i --tier "$TIER" > "/tmp/runall-C$i-$TIER.out" 2>&1
  rc=$?
  echo "C$i rc=$rc $(grep 'tier=' /tmp/runall-C$i-$TIER.out | tail -1)" >> "$LOG"
  grep "^VIOLATION\|^  what\|^ENGINE-ERROR" "/tmp/runall-C$i-$TIER.out" | cut -c1-400 >> "$LOG"
done
echo ALLDONE >> "$LOG"
