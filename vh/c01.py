"""C01 round-trip fixpoint (first pipeline version)"""
from sse import api
from vh import common as C


def units(tier):
    out = []
    for n in (1, 2, 3):
        for std in ("f2003", "f2008"):
            for ic in (True, False):
                out.append(dict(h="rt_prog", n=n, std=std, ic=ic))
    return out


def meta(tier):
    return dict(bounds=dict(name_len=[1, 2, 3]), assumptions=[])


def rt_prog(ctx):
    p = ctx.p
    C.reset()
    a = ctx.name("a", p["n"])
    src = "program p\n  integer :: i\n  " + a + " = i + 1\n  if (i > 2) then\n    call foo(" + a + ")\n  end if\nend program p\n"
    r = C.outcome(lambda: C.parse(src, p["std"], p["ic"]))
    ctx.observe("outcome", r[0])
    if r[0] != "ok":
        ctx.observe("msg", str(r[2]))
        ctx.fail("valid program rejected: " + r[0])
        return
    t = r[1]
    s1 = str(t)
    ctx.observe("s1", s1)
    r2 = C.outcome(lambda: C.parse(s1, p["std"], p["ic"]))
    if r2[0] != "ok":
        ctx.fail("printed program rejected: " + r2[0])
        return
    t2 = r2[1]
    s2 = str(t2)
    ctx.check(s1 == s2, "str(parse(str(T))) != str(T)")
    ctx.check(C.same_shape(C.shape(t), C.shape(t2)), "parse(str(T)) differs structurally from T")
