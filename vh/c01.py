"""C01 round-trip fixpoint: T = parse(P); parse(str(T)) ~ T; str(parse(str(T))) == str(T).

Program level: every catalogue template in a program context, constructs nested to depth 2/3,
every program-unit context; the lexemes (names, digits, labels, literal bodies) are symbolic.
Rule level: Cls(s) / Cls(str(Cls(s))) for expression and statement classes on symbolic lexemes.
"""
from sse import api
from vh import common as C
from vh import progs as PG
from vh import gen as G


def units(tier):
    # every (program, hole) gets one (std, ignore_comments) combination, rotating; thorough uses the
    # larger program set and 3-character lexemes for the base programs
    return PG.program_units(tier, "rt_prog", ics=(True, False), rotate=True)


def meta(tier):
    q = tier == "quick"
    return dict(
        bounds=dict(programs=len(PG.programs(tier)), hole_lengths=PG.LENS_Q if q else PG.LENS_T,
                    symbolic_chars_per_unit=4 if q else 8, nesting_depth=2 if q else 3,
                    standards=["f2003", "f2008"], ignore_comments=[True, False],
                    alphabet="names [A-Za-z][A-Za-z0-9_]*, digits, labels, literal bodies over printable ASCII"),
        assumptions=["names differ from Fortran keywords and intrinsic function names (gen.KEYWORDS + Intrinsic_Name.function_names)",
                     "labels in one program are distinct; label holes have no leading zero",
                     "the rule registry of ParserFactory.create(std) is cached per process and swapped in (validated by native witness replay, which calls create())"],
        budget_s=400 if q else 2400, unit_budget_s=60 if q else 300)


def with_comments(src):
    lines = src.split("\n")
    out = []
    k = 0
    prev = None
    for l in lines:
        if len(l) == 0:
            continue
        w = l.strip().split(" ")
        shared = (prev is not None and w[0] == "do" and prev[0] == "do" and len(w) > 1 and len(prev) > 1
                  and w[1] == prev[1] and w[1][:1].isdigit())
        prev = w
        if shared:
            # no comment between the DO statements of a shared-label nest: that layout is rejected by
            # fparser when comments are kept (recorded finding of C11)
            out.append(l)
            k += 1
            continue
        if k % 3 == 0:
            out.append("! comment %d" % k)
        elif k % 3 == 1:
            out.append("  ! it's 'comment' & \"x")
        else:
            out.append("")
        out.append(l)
        k += 1
    out.append("! trailing")
    return "\n".join(out) + "\n"


def rt_prog(ctx):
    p = ctx.p
    C.reset()
    src, vals = PG.build(ctx)
    if not p["ic"]:
        src = with_comments(src)
    ctx.observe("src", src)
    r = C.outcome(lambda: C.parse(src, p["std"], p["ic"]))
    ctx.observe("outcome", r[0])
    if r[0] != "ok":
        ctx.fail("valid program rejected (" + r[0] + ")")
        return
    t = r[1]
    s1 = str(t)
    ctx.observe("s1", s1)
    C.reset()
    r2 = C.outcome(lambda: C.parse(s1, p["std"], p["ic"]))
    if r2[0] != "ok":
        ctx.fail("printed program rejected (" + r2[0] + ")")
        return
    t2 = r2[1]
    s2 = str(t2)
    ctx.check(C.strip_trailing_blank_lines(s1) == C.strip_trailing_blank_lines(s2), "str(parse(str(T))) != str(T)")
    ctx.check(C.same_shape(C.shape(t), C.shape(t2)), "parse(str(T)) differs structurally from T")
