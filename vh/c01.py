"""C01 round-trip fixpoint: T = parse(P); parse(str(T)) ~ T; str(parse(str(T))) == str(T).

Program level: every catalogue template in a program context, constructs nested to depth 2/3,
every program-unit context; the lexemes (names, digits, labels, literal bodies) are symbolic.
Rule level: Cls(s) / Cls(str(Cls(s))) for expression and statement classes on symbolic lexemes.
"""
from sse import api
from vh import common as C
from vh import progs as PG
from vh import gen as G


def units(tier):
    # every (program, hole) gets one (std, ignore_comments) combination, rotating; thorough uses the
    # larger program set and 3-character lexemes for the base programs
    return PG.program_units(tier, "rt_prog", ics=(True, False), rotate=True) + rule_units(tier) + PG.corpus_units(tier, "rt_prog")


def meta(tier):
    q = tier == "quick"
    return dict(
        bounds=dict(programs=len(PG.programs(tier)), hole_lengths=PG.LENS_Q if q else PG.LENS_T,
                    symbolic_chars_per_unit=4 if q else 8, nesting_depth=2 if q else 3,
                    standards=["f2003", "f2008"], ignore_comments=[True, False],
                    alphabet="names [A-Za-z][A-Za-z0-9_]*, digits, labels, literal bodies over printable ASCII"),
        assumptions=["names differ from Fortran keywords and intrinsic function names (gen.KEYWORDS + Intrinsic_Name.function_names)",
                     "labels in one program are distinct; label holes have no leading zero",
                     "the rule registry of ParserFactory.create(std) is cached per process and swapped in (validated by native witness replay, which calls create())"],
        budget_s=400 if q else 1200, unit_budget_s=60 if q else 300)


def with_comments(src):
    lines = src.split("\n")
    out = []
    k = 0
    prev = None
    for l in lines:
        if len(l) == 0:
            continue
        w = l.strip().split(" ")
        shared = (prev is not None and w[0] == "do" and prev[0] == "do" and len(w) > 1 and len(prev) > 1
                  and w[1] == prev[1] and w[1][:1].isdigit())
        prev = w
        if shared:
            # no comment between the DO statements of a shared-label nest: that layout is rejected by
            # fparser when comments are kept (recorded finding of C11)
            out.append(l)
            k += 1
            continue
        if k % 3 == 0:
            out.append("! comment %d" % k)
        elif k % 3 == 1:
            out.append("  ! it's 'comment' & \"x")
        else:
            out.append("")
        out.append(l)
        k += 1
    out.append("! trailing")
    return "\n".join(out) + "\n"


def rt_prog(ctx):
    p = ctx.p
    C.reset()
    src, vals = PG.build(ctx)
    if not p["ic"]:
        src = with_comments(src)
    ctx.observe("src", src)
    r = C.outcome(lambda: C.parse(src, p["std"], p["ic"]))
    ctx.observe("outcome", r[0])
    if r[0] != "ok":
        ctx.fail("valid program rejected (" + r[0] + ")")
        return
    t = r[1]
    s1 = str(t)
    ctx.observe("s1", s1)
    C.reset()
    r2 = C.outcome(lambda: C.parse(s1, p["std"], p["ic"]))
    if r2[0] != "ok":
        ctx.fail("printed program rejected (" + r2[0] + ")")
        return
    t2 = r2[1]
    s2 = str(t2)
    ctx.check(C.strip_trailing_blank_lines(s1) == C.strip_trailing_blank_lines(s2), "str(parse(str(T))) != str(T)")
    ctx.check(C.same_shape(C.shape(t), C.shape(t2)), "parse(str(T)) differs structurally from T")


# ----------------------------------------------------------------------------- rule level
def rule_units(tier):
    us = []
    k = 0
    from sse import harvest
    for name, text in harvest.cls_pairs():
        name = str(name)
        text = str(text)
        pos = [i for i, ch in enumerate(text) if ch.isalnum()]
        if not pos:
            continue
        step = max(1, len(pos) // 2) if tier == "quick" else 1
        for i in (pos[::step][:2] if tier == "quick" else pos):
            k += 1
            us.append(dict(h="rt_rule", cls=name, text=text, at=i, std="f2008" if k % 2 else "f2003", cost=1))
    return us


def rt_rule(ctx):
    """Cls(s) for a test input of the repository with one letter/digit replaced by a symbolic
    letter/digit: whenever it matches, str() of the result must match again (same class) with an
    equal tree and equal text."""
    p = ctx.p
    C.reset()
    C.get_parser(p["std"])
    from fparser.two import Fortran2003, Fortran2008, C99Preprocessor
    cls = None
    if p["std"] == "f2008":
        cls = getattr(Fortran2008, api.text(p["cls"]), None)
    cls = cls or getattr(Fortran2003, api.text(p["cls"]), None) or getattr(C99Preprocessor, api.text(p["cls"]), None)
    if cls is None or not isinstance(cls, type):
        ctx.check(True, "class not available")
        return
    text = p["text"]
    i = p["at"]
    ch = text[i]
    dom = "digit" if ch.isdigit() else ("upper" if ch.isupper() else "lower")
    s = text[:i] + ctx.chars("c", 1, dom) + text[i + 1:]
    ctx.observe("s", s)
    r = C.outcome(lambda: cls(s))
    ctx.observe("o", r[0])
    if r[0] != "ok" or r[1] is None:
        ctx.check(True, "no match")
        return
    s1 = str(r[1])
    rep = repr(r[1])
    ctx.observe("s1", s1)
    C.reset()
    r2 = C.outcome(lambda: cls(s1))
    ok = r2[0] == "ok" and r2[1] is not None
    ctx.check(ok, "rule %s: printed text is not matched again by the same rule" % api.text(p["cls"]))
    if not ok:
        return
    s2 = str(r2[1])
    ctx.check((s1 == s2) if len(s1) == len(s2) else False, "rule %s: str(Cls(str(Cls(s)))) != str(Cls(s))" % api.text(p["cls"]))
    rep2 = repr(r2[1])
    ctx.check((rep == rep2) if len(rep) == len(rep2) else False, "rule %s: re-matched tree differs" % api.text(p["cls"]))
