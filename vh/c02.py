"""C02 token preservation: tokens(str(parse(P))) == tokens(P) modulo the documented
canonicalisations, with an independent lexer run (symbolically) on source and output; plus the
tokenisation kernels (splitquote / splitparen / string_replace_map + inverse) over all short
ASCII strings."""
from sse import api
from vh import common as C
from vh import progs as PG
from vh import lexer as LX
from vh import gen as G
from vh import catalogue as T
from fparser.common import splitline


def units(tier):
    q = tier == "quick"
    us = []
    for n in ((1, 2, 3, 4, 5, 6, 7, 8) if q else (1, 2, 3, 4, 5, 6, 7, 8, 9, 10)):
        us.append(dict(h="k_splitquote", n=n, cost=0))
    for n in ((1, 2, 3, 4, 5) if q else (1, 2, 3, 4, 5, 6, 7)):
        us.append(dict(h="k_splitparen", n=n, cost=0))
    for n in ((1, 2, 3, 4, 5) if q else (1, 2, 3, 4, 5, 6)):
        us.append(dict(h="k_replace_map", n=n, cost=0))
    us += PG.program_units(tier, "tok_prog", ics=(True,), rotate=True)
    us += rule_units(tier)
    return us


def meta(tier):
    q = tier == "quick"
    return dict(bounds=dict(programs=len(PG.programs(tier)), hole_lengths=PG.LENS_Q if q else PG.LENS_T,
                            splitquote_len=8 if q else 10, splitparen_len=5 if q else 7, replace_map_len=5 if q else 6,
                            replace_map_alphabet="'\"()[]/ a1_.eE+-,*", kernels_alphabet="all 128 ASCII characters"),
                assumptions=["canonicalisations applied by the oracle: keyword case, blanks, '::' dropped, compound keywords split, empty () after SUBROUTINE/CALL dropped",
                             "catalogue templates are written in the explicit-keyword forms (UNIT=, KIND=, LEN=)",
                             "names differ from keywords/intrinsics; labels have no leading zero"],
                budget_s=420 if q else 1200, unit_budget_s=90 if q else 900)


def _no_group_commas(toks):
    """token list without the optional ',' in front of a /group-name/ of a NAMELIST statement"""
    out = []
    first = None
    n = len(toks)
    for k in range(n):
        kind, t = toks[k]
        if kind == "n":
            first = None
        elif first is None and kind == "w":
            first = t.lower() if api.is_concrete(t) else ""
        if (first == "namelist" and kind == "p" and t == "," and k + 3 < n and toks[k + 1] == ("p", "/")
                and toks[k + 2][0] == "w" and toks[k + 3] == ("p", "/")):
            continue
        if first == "go" and kind == "p" and t == "," and k > 0 and toks[k - 1] == ("p", ")"):
            continue         # GO TO (labels) [,] expr
        out.append((kind, t))
    return out


def tok_prog(ctx):
    p = ctx.p
    C.reset()
    src, vals = PG.build(ctx)
    if "prog" in p:
        # a symbolic name must not coincide with a non-name word of the program (e.g. the edit
        # descriptor I1): the oracle identifies name tokens by value.  Decided on the template,
        # before the parse, identically in both execution modes.
        used = G.used_holes(p["prog"])
        defaults = [T.DEFAULTS[t] for t in used if t[0] == "n"]
        plain = [w.lower() for k, w in LX.tokens(G.program_text(p["prog"], {})) if k == "w"]
        for t in vals:
            if t[0] == "n":
                for w in plain:
                    if len(w) == len(vals[t]) and w not in [d.lower() for d in defaults]:
                        G.require(ctx, vals[t].lower() != w)
            elif t[0] == "o":
                # ... and the letters of a defined operator must not spell one of the program's names
                for d in defaults:
                    if len(d) == len(vals[t]):
                        G.require(ctx, vals[t].lower() != d.lower())
    ctx.observe("src", src)
    r = C.outcome(lambda: C.parse(src, p["std"], p["ic"]))
    ctx.observe("outcome", r[0])
    if r[0] != "ok":
        ctx.fail("valid program rejected (" + r[0] + ")")
        return
    s1 = str(r[1])
    ctx.observe("s1", s1)
    a = LX.normalise(LX.tokens(src))
    b = LX.normalise(LX.tokens(s1))
    if len(a) != len(b) and len(_no_group_commas(a)) == len(_no_group_commas(b)):
        # recorded finding: NAMELIST /g1/ a /g2/ b and GO TO (10) i are printed with the optional comma
        ctx.check(False, "printed source has more tokens than the program [optional comma added: NAMELIST groups, computed GO TO]")
        a, b = _no_group_commas(a), _no_group_commas(b)
    else:
        ctx.check(len(a) == len(b), "printed source has %s tokens than the program" % ("more" if len(b) > len(a) else "fewer"))
    if len(a) == len(b):
        names = [vals[t] if t in vals else T.DEFAULTS[t] for t in G.used_holes(p["prog"]) if t[0] == "n"]
        ctx.check(LX.same_tokens(a, b, names), "printed tokens differ from the program's tokens")


def k_splitquote(ctx):
    s = ctx.chars("s", ctx.p["n"], "ascii")
    parts, q = splitline.splitquote(s)
    ctx.observe("nparts", len(parts))
    ctx.check("".join(parts) == s, "splitquote loses or invents characters")
    for it in parts:
        if isinstance(it, splitline.String):
            ctx.check(api.conj([it[0] == it[-1], api.disj([it[0] == "'", it[0] == '"'])]) if q is None or it is not parts[-1] else True,
                      "splitquote String piece not delimited by matching quotes")


def k_splitparen(ctx):
    s = ctx.chars("s", ctx.p["n"], "ascii")
    parts = splitline.splitparen(s)
    ctx.observe("nparts", len(parts))
    ctx.check("".join(parts) == s, "splitparen loses or invents characters")


def _squeeze(s):
    """drop blanks (the documented lossy part: blanks adjacent to parentheses)"""
    return s.replace(" ", "")


def k_replace_map(ctx):
    C.reset()
    s = ctx.chars("s", ctx.p["n"], "'\"()[]/ a1_.eE+-,*")
    new, m = splitline.string_replace_map(s)
    back = m(new)
    ctx.observe("nkeys", len(m))
    ctx.check(len(_squeeze(back)) == len(_squeeze(s)), "string_replace_map inverse changes the number of non-blank characters")
    if len(_squeeze(back)) == len(_squeeze(s)):
        ctx.check(_squeeze(back) == _squeeze(s), "string_replace_map followed by its inverse does not give the line back")


def rule_units(tier):
    from sse import harvest
    us = []
    k = 0
    for name, text in harvest.cls_pairs():
        name = str(name)
        text = str(text)
        if name.startswith("Cpp_") or name in SKIP_RULES:
            continue
        pos = [i for i, ch in enumerate(text) if ch.isalnum()]
        if not pos or (" " not in text and text.lower().startswith("type") and len(text) > 4):
            continue      # 'typea': blank-free fixed-form spelling
        step = max(1, len(pos) // 2) if tier == "quick" else max(1, len(pos) // 6)
        for i in pos[::step][: (2 if tier == "quick" else 6)]:
            k += 1
            us.append(dict(h="tok_rule", cls=name, text=text, at=i, std="f2008" if k % 2 else "f2003", cost=1))
    return us


# rules whose printed form legitimately differs in tokens (documented canonicalisations beyond the
# normaliser: FORMAT commas, implied kind/len keywords in selectors, 'in out', 'go to' etc. are
# handled by the normaliser; these are not)
SKIP_RULES = ("Format_Item", "Format_Stmt", "Format_Specification", "Format_Item_List",   # documented: commas in FORMAT lists
              "Char_Literal_Constant",   # leaf; blanks around the kind '_' change the oracle's tokenisation, not the content
              "Length_Selector")         # test inputs carry a trailing ',' of their context


def tok_rule(ctx):
    """tokens(str(Cls(s))) == tokens(s) for a test input of the repository with one letter/digit
    symbolic"""
    p = ctx.p
    C.reset()
    C.get_parser(p["std"])
    from fparser.two import Fortran2003, Fortran2008
    cls = None
    if p["std"] == "f2008":
        cls = getattr(Fortran2008, api.text(p["cls"]), None)
    cls = cls or getattr(Fortran2003, api.text(p["cls"]), None)
    if cls is None or not isinstance(cls, type):
        ctx.check(True, "class not available")
        return
    text = p["text"]
    i = p["at"]
    ch = text[i]
    dom = "digit" if ch.isdigit() else ("upper" if ch.isupper() else "lower")
    s = text[:i] + ctx.chars("c", 1, dom) + text[i + 1:]
    ctx.observe("s", s)
    r = C.outcome(lambda: cls(s))
    if r[0] != "ok" or r[1] is None:
        ctx.check(True, "no match")
        return
    s1 = str(r[1])
    ctx.observe("s1", s1)
    a = LX.normalise(LX.tokens(s))
    b = LX.normalise(LX.tokens(s1))
    ctx.check(len(a) == len(b), "rule %s: printed text has %s tokens than the input" % (api.text(p["cls"]), "more" if len(b) > len(a) else "fewer"))
    if len(a) == len(b):
        ctx.check(LX.same_tokens(a, b, ()), "rule %s: printed tokens differ from the input's" % api.text(p["cls"]))
