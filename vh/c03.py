"""C03 precedence and associativity.  Expression trees over all intrinsic operators (both
spellings of the relationals), unary +/-/.NOT., defined unary and binary operators are rendered
with the minimal parentheses the standard's grammar (R702-R723) requires; fparser's tree, fully
bracketed, must equal the reference tree fully bracketed.  Operand lexemes (names, digits, exponent
letter and sign, literal bodies) and the letter case of dotted operators are symbolic."""
from sse import api
from vh import common as C
from vh import gen as G
from fparser.two import Fortran2003 as F
from fparser.two.utils import BinaryOpBase, UnaryOpBase, BracketBase, Base

# (spelling, rank of the production, min rank of left operand, min rank of right operand)
BIN = {
    ".myop.": (0, 0, 1),
    ".eqv.": (1, 1, 2), ".neqv.": (1, 1, 2),
    ".or.": (2, 2, 3),
    ".and.": (3, 3, 4),
    "==": (5, 6, 6), "/=": (5, 6, 6), "<": (5, 6, 6), "<=": (5, 6, 6), ">": (5, 6, 6), ">=": (5, 6, 6),
    ".eq.": (5, 6, 6), ".ne.": (5, 6, 6), ".lt.": (5, 6, 6), ".le.": (5, 6, 6), ".gt.": (5, 6, 6), ".ge.": (5, 6, 6),
    "//": (6, 6, 7),
    "+": (7, 7, 8), "-": (7, 7, 8),
    "*": (8, 8, 9), "/": (8, 8, 9),
    "**": (9, 10, 9),
}
UN = {".not.": (4, 5), "+": (7, 8), "-": (7, 8), ".inv.": (10, 11)}
BIN_OPS = list(BIN)
UN_OPS = list(UN)
REP = [".myop.", ".eqv.", ".or.", ".and.", "==", ".le.", "//", "+", "-", "*", "/", "**"]   # one or two per level


def rank(e):
    if e[0] == "bin":
        return BIN[e[1]][0]
    if e[0] == "un":
        return UN[e[1]][0]
    return 11


def paren(e):
    """insert the parentheses the grammar requires"""
    if e[0] == "bin":
        r, lmin, rmin = BIN[e[1]]
        l, rr = paren(e[2]), paren(e[3])
        if rank(l) < lmin:
            l = ("par", l)
        if rank(rr) < rmin:
            rr = ("par", rr)
        return ("bin", e[1], l, rr)
    if e[0] == "un":
        r, omin = UN[e[1]]
        x = paren(e[2])
        if rank(x) < omin:
            x = ("par", x)
        return ("un", e[1], x)
    return e


def leaves(e, out):
    if e[0] == "leaf":
        out.append(e)
    elif e[0] == "bin":
        leaves(e[2], out)
        leaves(e[3], out)
    else:
        leaves(e[2], out)
    return out


def text(e, sp, ops):
    """source text; sp = blank string placed around binary operators; ops maps spelling -> rendered spelling"""
    if e[0] == "leaf":
        return e[1]
    if e[0] == "par":
        return "(" + text(e[1], sp, ops) + ")"
    if e[0] == "un":
        return ops[e[1]] + (" " if e[1][0] == "." else "") + text(e[2], sp, ops)
    return text(e[2], sp, ops) + sp + ops[e[1]] + sp + text(e[3], sp, ops)


def ref_bracketed(e, ops):
    if e[0] == "leaf":
        return squeeze(e[1])
    if e[0] == "par":
        return "(" + ref_bracketed(e[1], ops) + ")"
    if e[0] == "un":
        return "[" + ops[e[1]].upper() + ref_bracketed(e[2], ops) + "]"
    return "[" + ref_bracketed(e[2], ops) + ops[e[1]].upper() + ref_bracketed(e[3], ops) + "]"


def squeeze(s):
    return s.replace(" ", "")


def got_bracketed(node):
    if isinstance(node, BinaryOpBase):
        l, op, r = node.items
        return "[" + got_bracketed(l) + squeeze(str(op)).upper() + got_bracketed(r) + "]"
    if isinstance(node, UnaryOpBase):
        op, r = node.items
        return "[" + squeeze(str(op)).upper() + got_bracketed(r) + "]"
    if isinstance(node, F.Parenthesis):
        return "(" + got_bracketed(node.items[1]) + ")"
    return squeeze(str(node))


LEAF_KINDS = ["name", "real_exp", "int", "true", "call", "elem", "comp", "string", "real_kind"]


CONCRETE = dict(name="nm", real_exp="1.5e-3", int="42", true=".true.", call="f1(q + 1, -2)", elem="w(i, j - 1)", comp="s%m",
                string="'+x)'", real_kind="2.e0_rk")


def make_leaf(ctx, kind, i, nlen, symbolic=True):
    t = "x%d" % i
    if not symbolic:
        return CONCRETE[kind] if kind != "name" else "v%d" % i
    if kind == "name":
        return G.fresh_name(ctx, t, nlen)
    if kind == "real_exp":
        return ctx.digits(t + "a", 1) + "." + ctx.digits(t + "b", 1) + ctx.chars(t + "e", 1, "eEdD") + ctx.chars(t + "s", 1, "+-") + ctx.digits(t + "c", 1)
    if kind == "real_kind":
        return ctx.digits(t + "a", 1) + ".e" + ctx.digits(t + "c", 1) + "_" + G.fresh_name(ctx, t + "k", 2)
    if kind == "int":
        return ctx.digits(t, 2)
    if kind == "true":
        return "." + ctx.chars(t + "t", 4, ["tT", "rR", "uU", "eE"]) + "."
    if kind == "call":
        return "f" + str(i) + "(" + G.fresh_name(ctx, t, nlen) + " + 1, -2)"
    if kind == "elem":
        return G.fresh_name(ctx, t, nlen) + "(i, j - 1)"
    if kind == "comp":
        return "s%" + G.fresh_name(ctx, t, nlen)
    if kind == "string":
        return "'" + G.quote_body(ctx.chars(t, 2, "+-*/.)( 'a"), "'") + "'"
    raise ValueError(kind)


def shapes(depth):
    """tree shapes as nested structures with operator slots: 'L' leaf, ('b', l, r), ('u', x)"""
    if depth == 0:
        return ["L"]
    sub = shapes(depth - 1)
    out = ["L"]
    for l in sub:
        for r in sub:
            out.append(("b", l, r))
    for x in sub:
        out.append(("u", x))
    return out


def count_ops(s):
    if s == "L":
        return (0, 0)
    if s[0] == "b":
        a, b = count_ops(s[1]), count_ops(s[2])
        return (1 + a[0] + b[0], a[1] + b[1])
    a = count_ops(s[1])
    return (a[0], a[1] + 1)


def build(shape, bops, uops, leaf_kinds, pos):
    """instantiate a shape; pos = [bin index, un index, leaf index] counters"""
    if shape == "L":
        k = leaf_kinds[pos[2] % len(leaf_kinds)]
        pos[2] += 1
        return ("leafslot", k, pos[2] - 1)
    if shape[0] == "b":
        op = bops[pos[0]]
        pos[0] += 1
        l = build(shape[1], bops, uops, leaf_kinds, pos)
        r = build(shape[2], bops, uops, leaf_kinds, pos)
        return ("bin", op, l, r)
    op = uops[pos[1]]
    pos[1] += 1
    return ("un", op, build(shape[1], bops, uops, leaf_kinds, pos))


def _product(lists):
    out = [[]]
    for l in lists:
        out = [o + [x] for o in out for x in l]
    return out


def units(tier):
    q = tier == "quick"
    us = []
    idx = 0
    # depth <= 2, all operator spellings
    for sh in shapes(2):
        nb, nu = count_ops(sh)
        if nb + nu == 0 or nb + nu > 2:
            continue
        for bops in _product([BIN_OPS] * nb):
            for uops in _product([UN_OPS] * nu):
                idx += 1
                us.append(dict(h="prec", shape=sh, bops=bops, uops=uops, rot=idx, nlen=1 if q else 2, cost=nb + nu))
    # repeated equal literals: every operand an exponent literal, the first one different from the
    # (equal) others; the symbolic operand rotates
    for sh in shapes(2):
        nb, nu = count_ops(sh)
        if nu != 0 or nb not in ((2,) if q else (2, 3)):
            continue
        for bops in _product([REP] * nb):
            idx += 1
            if nb == 3 and idx % 4:
                continue
            us.append(dict(h="prec", shape=sh, bops=bops, uops=[], rot=idx, nlen=1, leaves="reals", cost=nb))
    if not q:
        # depth 3 over representative operators of every level
        for sh in shapes(3):
            nb, nu = count_ops(sh)
            if nb + nu != 3:
                continue
            for bops in _product([REP] * nb):
                for uops in _product([[".not.", "-", ".inv."]] * nu):
                    idx += 1
                    if idx % 3:
                        continue
                    us.append(dict(h="prec", shape=sh, bops=bops, uops=uops, rot=idx, nlen=1, cost=5))
    return us


def meta(tier):
    q = tier == "quick"
    return dict(bounds=dict(tree_depth=2 if q else 3, operators_per_tree=2 if q else "2 over all spellings with 2-character names; 3 (every third combination) over one or two operators per precedence level, depth <= 3",
                            binary_operators=BIN_OPS, unary_operators=UN_OPS, operand_kinds=LEAF_KINDS,
                            repeated_literals="trees of 2 (thorough 3) binary operators over 12 representative operators with every operand an exponent literal, the first different from the equal others",
                            symbolic="operand names, literal digits, exponent letter and sign, logical-literal case, string body, case of dotted operators"),
                assumptions=["names differ from keywords/intrinsics", "expressions are rendered with single blanks or none around binary operators (both)"],
                budget_s=300 if q else 1500, unit_budget_s=60 if q else 240, witness_every=10)


def _dotted_right(e):
    """does the (unparenthesised) right spine/subtree of e contain a dotted operator or a logical literal?"""
    if e[0] == "leaf":
        return api.is_concrete(e[1]) and e[1][:1] == "." or (not api.is_concrete(e[1]) and len(e[1]) == 6 and e[1][:1] == ".")
    if e[0] == "par":
        return False
    if e[0] == "un":
        return e[1][0] == "." or _dotted_right(e[2])
    return e[1][0] == "." or _dotted_right(e[2]) or _dotted_right(e[3])


def skeleton(e, sp):
    """concrete outline of the rendered text: operands replaced by x, logical literals by .t."""
    if e[0] == "leaf":
        return ".t." if _dotted_right(e) else "x"
    if e[0] == "par":
        return "(" + skeleton(e[1], sp) + ")"
    if e[0] == "un":
        return e[1] + (" " if e[1][0] == "." else "") + skeleton(e[2], sp)
    return skeleton(e[2], sp) + sp + e[1] + sp + skeleton(e[3], sp)


def known_shape(e, sp=" "):
    sk = skeleton(e, sp)
    if ".myop." in sk and ".." in sk:
        return " [defined-binary-op followed by a dotted token]"
    return _known_shape(e)


def _known_shape(e):
    """tag for the recorded finding: a defined binary operator with a dotted operator / logical
    literal to its right outside parentheses (Expr.match splits on the right-most dotted token)"""
    def right_edge_dotted(x):
        if x[0] == "leaf":
            return _dotted_right(x)
        if x[0] == "bin":
            return right_edge_dotted(x[3])
        if x[0] == "un":
            return right_edge_dotted(x[2])
        return False

    def walk(x):
        if x[0] == "bin":
            if x[1] == ".myop." and (_dotted_right(x[3]) or right_edge_dotted(x[2])):
                return True
            return walk(x[2]) or walk(x[3])
        if x[0] == "un":
            return walk(x[2])
        if x[0] == "par":
            return walk(x[1])
        return False
    return " [defined-binary-op followed by a dotted token]" if walk(e) else ""


def _sym_case(ctx, tag, op):
    """dotted operators get symbolic letter case"""
    if op[0] != ".":
        return op
    inner = op[1:-1]
    doms = [ch + ch.upper() for ch in inner]
    return "." + ctx.chars(tag, len(inner), doms) + "."


def _fill(e, leafvals):
    if e[0] == "leafslot":
        return ("leaf", leafvals[e[2]])
    if e[0] == "bin":
        return ("bin", e[1], _fill(e[2], leafvals), _fill(e[3], leafvals))
    return ("un", e[1], _fill(e[2], leafvals))


def _slots(e, out):
    if e[0] == "leafslot":
        out.append(e)
    elif e[0] == "bin":
        _slots(e[2], out)
        _slots(e[3], out)
    else:
        _slots(e[2], out)
    return out


def _tup(x):
    if isinstance(x, list):
        return tuple([_tup(i) for i in x])
    return x


def prec(ctx):
    p = ctx.p
    C.reset()
    C.get_parser("f2003")
    shape = _tup(p["shape"])
    kinds = LEAF_KINDS[p["rot"] % len(LEAF_KINDS):] + LEAF_KINDS[:p["rot"] % len(LEAF_KINDS)]
    e0 = build(shape, p["bops"], p["uops"], kinds, [0, 0, 0])
    slots = _slots(e0, [])
    # one symbolic operand per path family: the slot chosen by rot; others concrete defaults
    leafvals = {}
    symslot = (p["rot"] // len(LEAF_KINDS)) % len(slots)
    for s in slots:
        if p.get("leaves") == "reals":
            leafvals[s[2]] = make_leaf(ctx, "real_exp", s[2], 1, True) if s[2] == symslot else ("1.0e-3" if s[2] == 0 else "2.0e-3")
        else:
            leafvals[s[2]] = make_leaf(ctx, s[1], s[2], p["nlen"], s[2] == symslot)
    ops = {}
    k = 0
    for op in list(p["bops"]) + list(p["uops"]):
        if op not in ops:
            ops[op] = _sym_case(ctx, "op%d" % k, op)
            k += 1
    e = paren(_fill(e0, leafvals))
    want = ref_bracketed(e, ops)
    for sp in (" ", ""):
        src = text(e, sp, ops)
        ctx.observe("src", src)
        r = C.outcome(lambda: F.Expr(src))
        ctx.observe("outcome", r[0])
        if r[0] != "ok" or r[1] is None:
            ctx.fail("valid expression rejected (" + r[0] + ")" + known_shape(e, sp))
            continue
        got = got_bracketed(r[1])
        ctx.observe("got", got)
        ctx.check(len(got) == len(want), "expression grouped differently from the standard (different bracketing)")
        if len(got) == len(want):
            ctx.check(got.upper() == want.upper(), "expression grouped differently from the standard")
        # through an assignment statement as well
    src = "v = " + text(e, " ", ops)
    r = C.outcome(lambda: F.Assignment_Stmt(src))
    if r[0] != "ok" or r[1] is None:
        ctx.fail("assignment with valid expression rejected (" + r[0] + ")" + known_shape(e))
    else:
        got = got_bracketed(r[1].items[2])
        ctx.check((got.upper() == want.upper()) if len(got) == len(want) else False, "assignment rhs grouped differently from the standard")
