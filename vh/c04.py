"""C04 free-form layout does not change the parse.  A statement of a catalogue program is laid
out in another way the standard allows (continued at a token boundary / inside a token / inside a
character literal, with or without leading '&', trailing comment, blank or comment lines between
the parts, joined to the next statement with ';', indented, letter case of every letter flipped
symbolically) and the tree must equal the tree of the canonical one-line layout (names keep their
spelling; keywords compare case-insensitively)."""
from sse import api
from vh import common as C
from vh import progs as PG
from vh import gen as G
from vh import catalogue as T
from vh import layout as LAY


def _lines(p, vals):
    return [l for l in G.program_text(p, vals).split("\n") if len(l) > 0]


def units(tier):
    q = tier == "quick"
    us = []
    rot = 0
    for p in PG.base_programs():
        lines = _lines(p, {})
        f08 = G.is_f08(p)
        holes = G.used_holes(p)
        # the template's own lines: everything except the program / end program frame
        for li in range(1, len(lines) - 1):
            line = lines[li]
            if line.strip() in ("continue", "call a") and li != 1:
                continue
            pts = LAY.split_points(line)
            lit = [x for x in pts if x[1] > 0]
            tok = [x for x in pts if x[1] == 0]
            if q:
                lit = lit[::2]
                tok = tok[::max(1, len(tok) // 3)]
            for (j, o) in lit + tok:
                for amp in (True, False):
                    rot += 1
                    var = ("plain", "trail", "comment", "blank")[rot % 4]
                    std = "f2008" if (f08 or rot % 2) else "f2003"
                    sym = "com" if var in ("trail", "comment") else (holes[rot % len(holes)] if holes else None)
                    # with comment / blank lines the comparison is made with comments ignored (retained comments are C11)
                    us.append(dict(h="lay_prog", prog=p, line=li, j=j, o=o, amp=amp, var=var, sym=sym, std=std, ic=True if var != "plain" else bool(rot % 3), cost=2))
            # three and more physical lines: a literal cut twice; a cut before the literal and one
            # inside it; with a blank / comment line after every continued line
            sp = LAY.tok_spans(line)
            for j, (k, a, b) in enumerate(sp):
                if k != "s" or b - a < 4 or j == 0:
                    continue
                shole = [h for h in holes if h[0] == "s"]
                combos = [[(j, 1), (j, b - a - 1)], [(j, 0), (j, (b - a) // 2)], [(j, 0), (j, 1), (j, b - a - 1)]]
                for cuts in combos:
                    for var in ("plain", "comment", "blank"):
                        rot += 1
                        if q and rot % 2 and var != "plain":
                            continue
                        us.append(dict(h="multi_prog", prog=p, line=li, cuts=[list(c) for c in cuts], amp=bool(rot % 2), var=var,
                                       sym=(shole[0] if shole else None) if rot % 3 else "com", std="f2008" if (f08 or rot % 2) else "f2003", ic=bool(rot % 4), cost=2))
            rot += 1
            std = "f2008" if (f08 or rot % 2) else "f2003"
            if p.get("unit") != "module_spec":
                us.append(dict(h="other_prog", prog=p, line=li, kind="semi", std=std, sym=holes[rot % len(holes)] if holes else None, cost=2))
            us.append(dict(h="other_prog", prog=p, line=li, kind="indent", std=std, sym=None, cost=1))
            us.append(dict(h="other_prog", prog=p, line=li, kind="case", std=std, sym=None, cost=3))
    # reader kernel: statements joined by ';' on one line (with a trailing comment) are the same
    # statements as on separate lines, for every text over quotes, '!', ';', a letter
    for n in ((3, 4, 5, 6) if q else (3, 4, 5, 6, 7)):
        us.append(dict(h="k_join", n=n, cost=0))      # cost 0: explored first
    return us


def meta(tier):
    q = tier == "quick"
    return dict(bounds=dict(programs=len(PG.base_programs()), statement="every line of the template under test",
                            split_points="character positions inside literals and token boundaries/interiors" + (" (spread subset)" if q else " (all)"),
                            variants=["plain", "trailing comment", "comment line between parts", "blank line between parts", "';' join with the next statement", "indentation 0-5", "letter case of every letter outside literals symbolic"],
                            multi_line="3-4 physical lines: two cuts inside a character literal, or one before and one or two inside it; comment / blank line after every continued line; comments kept or ignored",
                            reader_kernel="k_join: 'a = <text>' for every text of <= %d characters over ' \" ! a ; -- statements of the ';' layout == statements on separate lines" % (6 if q else 7),
                            symbolic="comment text, one lexeme hole, the case of every letter of the statement, or the whole text (kernel)"),
                assumptions=["a split inside a character context uses a leading '&' and carries no trailing comment",
                             "splits that separate a label / construct name from its statement are excluded here (recorded finding of C12)",
                             "names differ from keywords/intrinsics"],
                budget_s=400 if q else 1500, unit_budget_s=150 if q else 300, witness_every=10)


def _tree(ctx, text, std, ic, what):
    r = C.outcome(lambda: C.parse(text, std, ic))
    if r[0] != "ok":
        ctx.fail(what + " (" + r[0] + ")")
        return None
    return r[1]


def _shape_nocomment(t):
    """shape without Comment nodes (trailing / filler comments are extra nodes by design, see C11)"""
    from fparser.two.Fortran2003 import Comment
    from fparser.two.utils import Base

    def sh(node):
        if isinstance(node, Base):
            kids = [sh(c) for c in node.children if not isinstance(c, Comment)]
            it = getattr(node, "item", None)
            lab = getattr(it, "label", None) if it is not None else None
            nm = getattr(it, "name", None) if it is not None else None
            return [type(node).__name__, lab, nm, kids]
        if isinstance(node, (list, tuple)):
            return [sh(c) for c in node]
        return node
    return sh(t)


def k_join(ctx):
    """'a = <text>' where the text may contain ';' and '!': the reader's statements are the pieces
    between the ';' outside character context, up to the first '!' outside character context"""
    from fparser.common.readfortran import FortranStringReader, Comment as RComment
    n = ctx.p["n"]
    C.reset()          # the reader's memo must not carry entries of earlier paths
    s = ctx.chars("s", n, "'\"!a;")
    q = None
    pieces = []
    start = 0
    cut = None
    for i in range(n):
        c = s[i]
        if q is None:
            if c == "'":
                q = "'"
            elif c == '"':
                q = '"'
            elif c == ";":
                pieces.append(s[start:i])
                start = i + 1
            elif c == "!":
                cut = i
                break
        elif c == q:
            q = None
    ctx.assume(q is None or cut is not None)
    if q is not None:
        return
    pieces.append(s[start:(n if cut is None else cut)])
    src = "a = " + s + "\nb = 1\n"
    ctx.observe("src", src)
    got = [it.line for it in FortranStringReader(src, ignore_comments=True)]
    ctx.observe("got", got)
    want = []
    for k, pc in enumerate(pieces):
        t = (("a = " + pc) if k == 0 else pc).strip(" ")
        if len(t) > 0:
            want.append(t)
    want.append("b = 1")
    ctx.check(len(got) == len(want), "a line with ';' yields %d statements, the same statements on separate lines are %d" % (len(got), len(want)))
    if len(got) != len(want):
        return
    for g, w in zip(got, want):
        ctx.check((g == w) if len(g) == len(w) else False, "statement text differs between the ';' layout and separate lines")


def multi_prog(ctx):
    """the statement laid out over 3-4 physical lines (cuts inside a character literal)"""
    p = ctx.p
    C.reset()
    sym = p["sym"]
    vals = {}
    if sym is not None and sym != "com":
        vals = G.make_holes(ctx, {sym: len(T.DEFAULTS[sym])})
    lines = _lines(p["prog"], vals)
    li = p["line"]
    line = lines[li]
    fillers = []
    if p["var"] == "blank":
        fillers.append("")
    if p["var"] == "comment":
        fillers.append("  !" + (ctx.chars("fc", 2, "print") if sym == "com" else "fc"))
    phys = LAY.multi_layout(line, [tuple(c) for c in p["cuts"]], p["amp"], fillers)
    if phys is None:
        ctx.check(True, "layout not applicable on this path")
        return
    canon = "\n".join(lines) + "\n"
    laid = "\n".join(lines[:li] + phys + lines[li + 1:]) + "\n"
    ctx.observe("laid", laid)
    t0 = _tree(ctx, canon, p["std"], p["ic"], "canonical program rejected")
    if t0 is None:
        return
    C.reset()
    t1 = _tree(ctx, laid, p["std"], p["ic"], "re-laid-out program rejected [multi split]")
    if t1 is None:
        return
    ctx.observe("s1", str(t1))
    if p["var"] == "comment" and not p["ic"]:
        # kept comments put wrapper nodes into the tree (C11/C14 findings): compare the regenerated
        # statements instead
        a = [l for l in str(t0).split("\n") if l.strip()[:1] != "!"]
        b = [l for l in str(t1).split("\n") if l.strip()[:1] != "!"]
        same = len(a) == len(b) and api.conj([(x == y) if len(x) == len(y) else False for x, y in zip(a, b)])
        ctx.check(same, "layout changes the regenerated statements [multi split, comments kept]")
        return
    ctx.check(C.same_shape(_shape_nocomment(t0), _shape_nocomment(t1)), "layout changes the parse tree [multi split]")


def lay_prog(ctx):
    p = ctx.p
    C.reset()
    sym = p["sym"]
    vals = {}
    if sym is not None and sym != "com":
        vals = G.make_holes(ctx, {sym: len(T.DEFAULTS[sym])})
    lines = _lines(p["prog"], vals)
    li = p["line"]
    line = lines[li]
    trail = None
    fillers = []
    if p["var"] == "trail":
        trail = ctx.chars("tc", 2, "print") if sym == "com" else "tc"
    if p["var"] == "blank":
        fillers.append("")
    if p["var"] == "comment":
        fillers.append("  !" + (ctx.chars("fc", 2, "print") if sym == "com" else "fc"))
    lay = LAY.free_layout(line, p["j"], p["o"], p["amp"], trail, fillers)
    if lay is None:
        ctx.check(True, "layout not applicable on this path")
        return
    phys, kind = lay
    # splits that cut a label / construct name off its statement: recorded reader finding (C12)
    first_core = phys[0]
    if trail is not None:
        first_core = first_core[:len(first_core) - len(trail) - 2]
    first_core = first_core.rstrip(" ")[:-1]
    label, name, text = LAY.oracle_item(line)
    l1, n1, t1 = LAY.oracle_item(first_core + " zz")
    if not ((l1 == label) and ((n1 is None) == (name is None)) and (n1 is None or (len(n1) == len(name) and n1 == name))):
        ctx.check(True, "excluded layout")
        return
    canon = "\n".join(lines) + "\n"
    if p["var"] == "trail":
        phys[-1] = phys[-1] + " ! end"
    laid = "\n".join(lines[:li] + phys + lines[li + 1:]) + "\n"
    ctx.observe("laid", laid)
    t0 = _tree(ctx, canon, p["std"], p["ic"], "canonical program rejected")
    if t0 is None:
        return
    C.reset()
    t1 = _tree(ctx, laid, p["std"], p["ic"], "re-laid-out program rejected [%s split]" % kind)
    if t1 is None:
        return
    ctx.observe("s1", str(t1))
    ctx.check(C.same_shape(_shape_nocomment(t0), _shape_nocomment(t1)), "layout changes the parse tree [%s split]" % kind)


def _flip_case(ctx, line):
    """every letter outside character literals gets a symbolic case"""
    out = []
    q = None
    k = 0
    for ch in line:
        if q is None:
            if ch in "'\"":
                q = ch
                out.append(ch)
            elif ch.isalpha():
                out.append(ctx.chars("k%d" % k, 1, ch.lower() + ch.upper()))
                k += 1
            else:
                out.append(ch)
        else:
            out.append(ch)
            if ch == q:
                q = None
    return "".join(out)


def _lower_shape(s):
    if isinstance(s, list):
        return [_lower_shape(x) for x in s]
    if isinstance(s, str):
        return s.lower()
    return s


def other_prog(ctx):
    p = ctx.p
    C.reset()
    sym = p["sym"]
    vals = {}
    if sym is not None:
        vals = G.make_holes(ctx, {sym: len(T.DEFAULTS[sym])})
    lines = _lines(p["prog"], vals)
    li = p["line"]
    canon = "\n".join(lines) + "\n"
    kind = p["kind"]
    if kind == "semi":
        if li + 1 >= len(lines) - 1:
            new = lines[:li] + [lines[li] + " ; continue"] + lines[li + 1:]
            canon = "\n".join(lines[:li + 1] + ["continue"] + lines[li + 1:]) + "\n"
        else:
            new = lines[:li] + [lines[li] + " ;" + lines[li + 1]] + lines[li + 2:]
    elif kind == "indent":
        new = [(" " * ((k * 2) % 6)) + l for k, l in enumerate(lines)]
    else:
        new = lines[:li] + [_flip_case(ctx, lines[li])] + lines[li + 1:]
    laid = "\n".join(new) + "\n"
    ctx.observe("laid", laid)
    t0 = _tree(ctx, canon, p["std"], True, "canonical program rejected")
    if t0 is None:
        return
    C.reset()
    t1 = _tree(ctx, laid, p["std"], True, "re-laid-out program rejected [%s]" % kind)
    if t1 is None:
        return
    a, b = C.shape(t0), C.shape(t1)
    if kind == "case":
        ctx.check(C.same_shape(_lower_shape(a), _lower_shape(b)), "letter case changes the parse tree")
    else:
        ctx.check(C.same_shape(a, b), "layout changes the parse tree [%s]" % kind)
