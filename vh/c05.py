"""C05 fixed form is recognised and parses like the free-form equivalent.
 fix_prog: catalogue programs (fixed-form capable templates) rendered in fixed form -- label in
           columns 1-5 (right or left justified), statement from column 7, one statement wrapped
           at a chosen position onto a continuation line whose column-6 mark is symbolic (any
           printable character except blank and 0), comment lines with symbolic introducer
           (C c * !) between the lines; the detector must say fixed and the tree must equal the
           free-form tree.  A literal is only broken at column 72 (the statement is shifted right).
 detect:   symbolic label field / first characters: fixed-looking sources are never detected as
           free; a first statement starting in columns 1-5 with a letter other than c/C is free."""
from sse import api
from vh import common as C
from vh import progs as PG
from vh import gen as G
from vh import catalogue as T
from vh import layout as LAY
from fparser.common.sourceinfo import get_source_info_str
from fparser.common.readfortran import FortranStringReader


def _fixable(p):
    for s in p.get("spec", []):
        if "fix" not in T.flags(T.by_name(T.SPEC, s)):
            return False
    for x in p.get("exec", []):
        if isinstance(x, str):
            if "fix" not in T.flags(T.by_name(T.EXEC, x)):
                return False
        else:
            if "fix" not in T.flags(T.by_name(T.CONS, x[0])):
                return False
    return True


def _lines(p, vals):
    return [l for l in G.program_text(p, vals).split("\n") if len(l) > 0]


def units(tier):
    q = tier == "quick"
    us = []
    rot = 0
    for p in PG.base_programs():
        if not _fixable(p):
            continue
        lines = _lines(p, {})
        holes = G.used_holes(p)
        for li in range(1, len(lines) - 1):
            line = lines[li]
            if line.strip() in ("continue", "call a") and li != 1:
                continue
            label, name, text = LAY.oracle_item(line)
            body = line[len(line) - len(text):] if name is None else None
            if body is None:
                continue
            pts = LAY.split_points(text)
            if q:
                lit = [x for x in pts if x[1] > 0][::2]
                tok = [x for x in pts if x[1] == 0]
                tok = tok[::max(1, len(tok) // 3)]
                pts = lit + tok
            for (j, o) in pts:
                rot += 1
                var = ("plain", "comment", "left", "two")[rot % 4]
                sym = ("cont", "intro", "hole", "cont")[rot % 4]
                hole = holes[rot % len(holes)] if holes else None
                us.append(dict(h="fix_prog", prog=p, line=li, j=j, o=o, var=var, sym=sym, hole=hole, std="f2003" if rot % 2 else "f2008", cost=2))
    # a character literal running over three physical lines (columns 7-72 of the middle line are all
    # literal text), two symbolic characters in one of the segments, comment lines in between
    for where in ("first", "mid", "last", "open2", "close2"):
        for var in ("plain", "c12", "c23", "both"):
            for ic in (True, False):
                for std in (("f2003",) if q else ("f2003", "f2008")):
                    us.append(dict(h="fix_longlit", where=where, var=var, ic=ic, std=std, cost=2))
    for n in (1, 2, 3):
        us.append(dict(h="detect_fixed", nlines=n, cost=1))
    us.append(dict(h="detect_free", cost=1))
    return us


def meta(tier):
    q = tier == "quick"
    return dict(bounds=dict(programs=len([p for p in PG.base_programs() if _fixable(p)]), wrap="token boundaries, token interiors, literal interiors (at column 72)" + (" (spread subset)" if q else ""),
                            continuation_lines="1 (2 in the 'two' variant)", comment_lines="0-1 between statement lines",
                            long_literal="fix_longlit: a literal over three physical lines (columns 7-72 of the middle line all literal text), opened on line 1 or on the first continuation line, or closed and re-opened there; two symbolic printable characters in the first / middle / last segment; comment lines (C c * !) between the lines; comments kept or ignored",
                            symbolic="continuation mark (printable, not blank/0), comment introducer (C c * !) and first comment character, or one lexeme hole"),
                assumptions=["outside the claim: a first statement starting with c/C/*/! in column 1 (a comment by definition); fixed-form lines ending in '&' (documented heuristic)",
                             "statements with a construct name are not wrapped (label/name prefix handling is C12)"],
                budget_s=400 if q else 1500, unit_budget_s=60 if q else 300, witness_every=10)


def _amp_tag(lines):
    for l in lines:
        if l.rstrip(" ")[-1:] == "&":
            return " [a physical line ends in '&']"
    return ""


def fix_prog(ctx):
    p = ctx.p
    C.reset()
    vals = {}
    if p["sym"] == "hole" and p["hole"] is not None:
        vals = G.make_holes(ctx, {p["hole"]: len(T.DEFAULTS[p["hole"]])})
    lines = _lines(p["prog"], vals)
    canon = "\n".join(lines) + "\n"
    li = p["line"]
    out = []
    for k, l in enumerate(lines):
        label, name, text = LAY.oracle_item(l)
        labs = None if label is None else str(label)
        if name is not None:
            text = name + ": " + text
        if labs is not None and p["var"] == "left":
            head = labs + " " * (5 - len(labs)) + " "
        elif labs is not None and p["sym"] == "cont":
            # column 6 of an initial line may be a blank or a zero
            if "col6" not in ctx.holes:
                col6 = ctx.chars("col6", 1, " 0")
            head = LAY.fixed_line(labs, "", col6)
        else:
            head = LAY.fixed_line(labs, "")
        if k != li:
            out.append(head + text)
            continue
        sp = LAY.tok_spans(text)
        if p["j"] >= len(sp) or p["o"] >= sp[p["j"]][2] - sp[p["j"]][1]:
            ctx.check(True, "layout not applicable on this path")
            return
        cut = sp[p["j"]][1] + p["o"]
        if p["o"] == 0 and p["j"] > 0:
            # token boundary: the separating blanks go to the continuation line (the reader strips
            # trailing blanks of a physical line, and fparser keeps blanks significant in fixed form)
            cut = sp[p["j"] - 1][2]
        inlit = sp[p["j"]][0] == "s" and p["o"] > 0
        pad = ""
        if inlit:
            if cut > 66:
                ctx.check(True, "layout not applicable")
                return
            pad = " " * (66 - cut)      # the cut falls exactly behind column 72
        cont = ctx.chars("cont", 1, "print") if p["sym"] == "cont" else "&"
        if p["sym"] == "cont":
            G.require(ctx, cont != " ")
            G.require(ctx, cont != "0")
        first = head + pad + text[:cut]
        lit_blank = bool(inlit and text[cut - 1:cut] == " ")
        out.append(first)
        if p["var"] == "comment":
            intro = ctx.chars("intro", 1, "cC*!") if p["sym"] == "intro" else "C"
            body = ctx.chars("cbody", 1, "print") if p["sym"] == "intro" else "x"
            out.append(intro + body + " a comment")
        rest = text[cut:]
        lead = len(rest) - len(rest.lstrip(" "))
        if p["var"] == "two" and len(rest) > lead + 1 and not inlit:
            out.append("     " + cont + rest[:lead + 1])
            out.append("     " + cont + rest[lead + 1:])
        else:
            out.append("     " + cont + rest)
    fixed = "\n".join(out) + "\n"
    ctx.observe("fixed", fixed)
    tag = _amp_tag(out)
    fl = first.strip(" ")
    if fl[-1:] == ":" and fl[:-1].strip(" ").replace("_", "a").isalnum():
        tag += " [first physical line reads 'word :']"
    if lit_blank:
        tag += " [blank in front of column 73 inside a continued character literal]"
    fmt = get_source_info_str(fixed)
    ctx.observe("is_free", fmt.is_free)
    ctx.check(not fmt.is_free, "fixed-form source detected as free form" + tag)
    if fmt.is_free:
        return
    t0 = C.outcome(lambda: C.parse(canon, p["std"], True))
    if t0[0] != "ok":
        ctx.fail("canonical free-form program rejected (" + t0[0] + ")")
        return
    C.reset()
    t1 = C.outcome(lambda: C.parse(fixed, p["std"], True))
    if t1[0] != "ok":
        ctx.fail("fixed-form rendering rejected (" + t1[0] + ")" + tag)
        return
    ctx.check(C.same_shape(C.shape(t0[1]), C.shape(t1[1])), "fixed-form rendering parses to a different tree" + tag)


def fix_longlit(ctx):
    p = ctx.p
    C.reset()
    x = ctx.chars("x", 2, "print")
    G.require(ctx, api.conj([ch != "'" for ch in x]))
    seg1 = "Abcdefghij" * 6 + "K"            # 61 characters: columns 12-72 of the first line
    seg2 = "Lmnopqrstu" * 6 + "Vwxyz."       # 66 characters: columns 7-72 of the middle line
    seg3 = "end"
    if p["where"] == "first":
        seg1 = seg1[:30] + x + seg1[32:]
    elif p["where"] == "mid":
        seg2 = seg2[:10] + x + seg2[12:]
    else:
        seg3 = "e" + x + "d"
    intro = ctx.chars("intro", 1, "cC*!")
    com = intro + " note ' it"
    if p["where"] == "open2":
        # the literal is opened on the first continuation line (which has no '!')
        seg3 = "e" + x + "d"
        l1, l2, l3 = "      a = b2 //", "     &'" + seg2[:65], "     &" + seg3 + "'"
        stmt = "a = b2 //'" + seg2[:65] + seg3 + "'"
    elif p["where"] == "close2":
        # a literal is closed and another one opened on the first continuation line
        seg3 = "e" + x + "d"
        mid = "xyz' // '" + seg2[:57]
        l1, l2, l3 = "      a = '" + seg1, "     &" + mid, "     &" + seg3 + "'"
        stmt = "a = '" + seg1 + mid + seg3 + "'"
    else:
        l1, l2, l3 = "      a = '" + seg1, "     &" + seg2, "     &" + seg3 + "'"
        stmt = "a = '" + seg1 + seg2 + seg3 + "'"
    out = ["      program pg", l1]
    if p["var"] in ("c12", "both"):
        out.append(com)
    out.append(l2)
    if p["var"] in ("c23", "both"):
        out.append(com)
    out.append(l3)
    out += ["      b2 = 1", "      end program pg"]
    fixed = "\n".join(out) + "\n"
    canon = "program pg\n" + stmt + "\nb2 = 1\nend program pg\n"
    ctx.observe("fixed", fixed)
    fmt = get_source_info_str(fixed)
    ctx.check(not fmt.is_free, "fixed-form source detected as free form")
    if fmt.is_free:
        return
    t0 = C.outcome(lambda: C.parse(canon, p["std"], True))
    if t0[0] != "ok":
        ctx.fail("canonical free-form program rejected (" + t0[0] + ")")
        return
    C.reset()
    t1 = C.outcome(lambda: C.parse(fixed, p["std"], p["ic"]))
    if t1[0] != "ok":
        ctx.fail("fixed-form rendering rejected (" + t1[0] + ") [literal over three lines]")
        return
    a = [l for l in str(t0[1]).split("\n")]
    b = [l for l in str(t1[1]).split("\n") if l.strip()[1:] != " note ' it"]     # comment lines are printed verbatim
    same = len(a) == len(b) and api.conj([(u == v) if len(u) == len(v) else False for u, v in zip(a, b)])
    ctx.check(same, "fixed-form rendering regenerates different statements [literal over three lines]")
    if not p["ic"]:
        from fparser.two.utils import walk
        from fparser.two.Fortran2003 import Comment
        ncom = len([c for c in walk(t1[1], Comment) if len(c.items[0]) > 0])
        want = {"plain": 0, "c12": 1, "c23": 1, "both": 2}[p["var"]]
        ctx.check(ncom == want, "comment lines between the continuation lines of a literal are not kept as comments")


def detect_fixed(ctx):
    """lines whose columns 1-5 are blanks/digits (or comment lines) never look free"""
    n = ctx.p["nlines"]
    lines = []
    for k in range(n - 1):
        kind = ctx.choose("kind%d" % k, 3)
        if kind == 0:
            lines.append(ctx.chars("c%d" % k, 1, "cC*!") + ctx.chars("ct%d" % k, 3, "print"))
        elif kind == 1:
            lines.append("")
        else:
            lines.append(ctx.chars("l%d" % k, 5, " 0123456789") + " " + "x = " + ctx.chars("v%d" % k, 1, "digit"))
    field = ctx.chars("lab", 5, " 0123456789")
    col6 = ctx.chars("col6", 1, " 0")
    stmt = ctx.chars("s", 2, "print")
    lines.append(field + col6 + " " + stmt + " = 1")
    src = "\n".join(lines) + "\n"
    ctx.observe("src", src)
    fmt = get_source_info_str(src)
    ctx.check(not fmt.is_free, "source with label field in columns 1-5 detected as free form" + _amp_tag(lines))


def detect_free(ctx):
    """first statement starts in columns 1-5 with a letter other than c/C -> free"""
    ind = ctx.choose("indent", 5)
    first = ctx.chars("f", 1, "letter")
    G.require(ctx, first.lower() != "c")
    rest = ctx.chars("r", 2, "namec")
    G.require(ctx, (first + rest)[:1] != "\t")
    src = " " * ind + first + rest + " = 1\nend\n"
    ctx.observe("src", src)
    fmt = get_source_info_str(src)
    ctx.check(fmt.is_free, "first statement in columns 1-5 not detected as free form")
