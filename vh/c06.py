"""C06 totality: for any input, parsing (and printing the result) ends in a tree or in
FortranSyntaxError -- no other exception, no process exit, no hang.
 (a) arbitrary short texts: every character symbolic over printable ASCII + newline + tab;
 (b) every catalogue program with one character position replaced by a symbolic character of the
     whole alphabet, or deleted / duplicated;
 (c) the codec error handler returns ("", end) for every start < end (progress => decoding ends)."""
from sse import api
from vh import common as C
from vh import progs as PG
from vh import gen as G


def units(tier):
    q = tier == "quick"
    us = []
    for n in ((1, 2) if q else (1, 2, 3)):
        for std in ("f2003", "f2008"):
            for ic in (True, False):
                us.append(dict(h="any_text", n=n, std=std, ic=ic, cost=n))
    us.append(dict(h="codec_handler", cost=0))
    # the time bound on larger valid inputs: size-indexed families of C20 (those that are not
    # recorded as exponential there) at a size where exponential behaviour exceeds the path limit
    from vh import c20
    for fam in c20.FAMILIES:
        if fam in c20.KNOWN_EXP:
            continue
        for std in ("f2003", "f2008"):
            us.append(dict(h="big", fam=fam, n=24, std=std, cost=4))
    us.append(dict(h="big", fam="paren", n=120, std="f2003", cost=4))      # very deep nesting
    base = PG.base_programs()
    rot = 0
    for p in base:
        src = G.program_text(p, {})
        f08 = G.is_f08(p)
        lines = src.split("\n")
        pos = 0
        for li, l in enumerate(lines):
            if len(l) == 0:
                pos += 1
                continue
            if q:
                cols = sorted(set([0, len(l) // 2, len(l) - 1, len(l)]))
            else:
                cols = list(range(len(l) + 1))
            for c in cols:
                rot += 1
                std = "f2008" if (f08 or rot % 2) else "f2003"
                us.append(dict(h="mutate", prog=p, at=pos + c, op="replace" if c < len(l) else "insert", std=std, ic=bool(rot % 3), cm=(rot % 5 == 0), cost=3))
                if not q or rot % 4 == 0:
                    us.append(dict(h="mutate", prog=p, at=pos + c, op="delete" if c < len(l) else "dup", std=std, ic=True, cost=1))
            pos += len(l) + 1
    # token-level mutations (concrete): delete / duplicate a token, swap neighbours, duplicate a
    # parenthesised group
    from vh import layout as LAY
    for p in base:
        src = G.program_text(p, {})
        f08 = G.is_f08(p)
        lines = [l for l in src.split("\n") if len(l) > 0]
        for li in range(1, len(lines) - 1):
            sp = LAY.tok_spans(lines[li])
            for j in range(len(sp)):
                rot += 1
                if q and rot % 2:
                    continue
                std = "f2008" if (f08 or rot % 2 == 0) else "f2003"
                for op in ("tdel", "tdup", "tswap", "gdup"):
                    if op == "tswap" and j + 1 >= len(sp):
                        continue
                    if op == "gdup" and lines[li][sp[j][1]:sp[j][2]] != "(":
                        continue
                    us.append(dict(h="tokmut", prog=p, line=li, j=j, op=op, std=std, ic=True, cost=1))
    # the repository's own test texts (valid and invalid programs, reader layouts), one character symbolic
    from sse import harvest
    k = 0
    for t in harvest.test_texts():
        t = str(t)
        if "include" in t.lower():
            continue            # would touch the real file system
        n = len(t)
        for at in ([n // 2] if q else [n // 5, n // 2, (4 * n) // 5, n - 1]):
            k += 1
            us.append(dict(h="text_mut", text=t, at=at, std="f2008" if k % 2 else "f2003", ic=bool(k % 3), cost=2))
    return us


def meta(tier):
    q = tier == "quick"
    return dict(bounds=dict(arbitrary_text_len=2 if q else 3, alphabet="tab, newline, printable ASCII (97 characters) for every symbolic position",
                            mutation="one character position of a catalogue program replaced by / preceded by a symbolic character, or deleted/duplicated; token deleted / duplicated / swapped with its neighbour; parenthesised group duplicated",
                            positions="first, middle, last character and end of every line" if q else "every character position of every line",
                            programs=len(PG.base_programs())),
                assumptions=["the C-level UTF-8 decoder and open() are not encoded; only the registered Python error handler is",
                             "SystemExit is intercepted by the harness (it is an observable, reported as a violation)",
                             "a path running longer than 20 s is reported as non-termination and confirmed by a native run with a 60 s limit"],
                budget_s=420 if q else 1500, unit_budget_s=120 if q else 900, path_timeout=20, native_timeout=60)


ALLOWED = ("ok", "FortranSyntaxError")


def run_parse(ctx, src, std, ic):
    def go():
        t = C.parse(src, std, ic)
        return str(t)
    r = C.outcome(go)
    ctx.observe("outcome", r[0])
    if r[0] == "RecursionError":
        # where the interpreter's limit is hit is not a property of the input: no call site in the message
        ctx.fail("parse ends in RecursionError instead of a tree or FortranSyntaxError")
    elif r[0] not in ALLOWED:
        ctx.fail("parse ends in %s instead of a tree or FortranSyntaxError [%s]" % (r[0], api.text(C.site(r[2]))))
    else:
        ctx.check(True, "outcome is a tree or FortranSyntaxError")


def any_text(ctx):
    p = ctx.p
    C.reset()
    src = ctx.chars("t", p["n"], "text")
    ctx.observe("src", src)
    run_parse(ctx, src, p["std"], p["ic"])


def mutate(ctx):
    p = ctx.p
    C.reset()
    src = G.program_text(p["prog"], {})
    at = p["at"]
    if p.get("cm"):
        # trailing comment on every line (the mutated position is kept relative to its own line)
        lines = src.split("\n")
        out = []
        seen = 0
        newat = at
        for l in lines:
            if seen + len(l) < at and len(l) > 0:
                newat += 4
            seen += len(l) + 1
            out.append(l + " ! c" if len(l) > 0 else l)
        src = "\n".join(out)
        at = newat
    if p["op"] == "replace":
        src = src[:at] + ctx.chars("c", 1, "text") + src[at + 1:]
    elif p["op"] == "insert":
        src = src[:at] + ctx.chars("c", 1, "text") + src[at:]
    elif p["op"] == "delete":
        src = src[:at] + src[at + 1:]
    else:
        src = src[:at] + src[at - 1:at] + src[at:]
    ctx.observe("src", src)
    run_parse(ctx, src, p["std"], p["ic"])


def tokmut(ctx):
    from vh import layout as LAY
    p = ctx.p
    C.reset()
    lines = [l for l in G.program_text(p["prog"], {}).split("\n") if len(l) > 0]
    l = lines[p["line"]]
    sp = LAY.tok_spans(l)
    j = p["j"]
    k, a, b = sp[j]
    op = p["op"]
    if op == "tdel":
        new = l[:a] + l[b:]
    elif op == "tdup":
        new = l[:b] + " " + l[a:b] + l[b:]
    elif op == "tswap":
        k2, a2, b2 = sp[j + 1]
        new = l[:a] + l[a2:b2] + l[b:a2] + l[a:b] + l[b2:]
    else:
        depth = 0
        end = None
        for t in range(j, len(sp)):
            w = l[sp[t][1]:sp[t][2]]
            if w == "(":
                depth += 1
            elif w == ")":
                depth -= 1
                if depth == 0:
                    end = sp[t][2]
                    break
        if end is None:
            ctx.check(True, "no group")
            return
        new = l[:end] + l[a:end] + l[end:]
    src = "\n".join(lines[:p["line"]] + [new] + lines[p["line"] + 1:]) + "\n"
    ctx.observe("src", src)
    run_parse(ctx, src, p["std"], True)


def text_mut(ctx):
    p = ctx.p
    C.reset()
    t = p["text"]
    at = p["at"]
    src = t[:at] + ctx.chars("c", 1, "text") + t[at + 1:]
    ctx.observe("len", len(src))
    run_parse(ctx, src, p["std"], p["ic"])


def big(ctx):
    from vh import c20
    p = ctx.p
    C.reset()
    v = G.fresh_name(ctx, "v", 1)
    src = c20.FAMILIES[p["fam"]](p["n"], [], v)
    ctx.observe("len", len(src))
    run_parse(ctx, src, p["std"], "!" not in src)


class _Err:
    def __init__(self, start, end):
        self.start, self.end, self.object, self.reason, self.encoding = start, end, b"", "invalid start byte", "utf-8"

    def __str__(self):
        return "'utf-8' codec can't decode bytes in position %d-%d" % (self.start, self.end)


def codec_handler(ctx):
    import fparser
    import codecs
    start = ctx.choose("start", 8)
    end = start + 1 + ctx.choose("len", 4)
    h = codecs.lookup_error("fparser-logging")
    ctx.check(h is fparser.log_decode_error_handler, "the registered 'fparser-logging' handler is not fparser.log_decode_error_handler")
    r = fparser.log_decode_error_handler(_Err(start, end))
    ctx.observe("r", [r[0], r[1]])
    ctx.check(r[0] == "" and r[1] == end and r[1] > start, "codec error handler does not skip the bad bytes")
