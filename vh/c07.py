"""C07 a syntax error is reported at the offending statement's line.  One statement of a valid
program is replaced by garbage that matches no rule (symbolic characters from @~^?`|\\), laid out
on one or two physical lines; the FortranSyntaxError must name the physical line on which the
garbage statement ends and quote that line."""
from sse import api
from vh import common as C
from vh import progs as PG
from vh import gen as G

GARBAGE = "@~^?`|\\"
BARE = ["print", "call", "write", "read", "allocate", "deallocate", "goto", "use", "if", "where", "forall", "open", "close", "nullify"]


def units(tier):
    q = tier == "quick"
    us = []
    rot = 0
    for p in PG.programs("quick" if q else "thorough"):
        if not q and p.get("unit") not in ("program", "subroutine", "module", "two_units", "program_contains", "function"):
            continue
        src = G.program_text(p, {})
        nlines = len([l for l in src.split("\n") if len(l) > 0])
        f08 = G.is_f08(p)
        for i in range(nlines):
            rot += 1
            std = "f2008" if (f08 or rot % 2) else "f2003"
            two = (rot % 3 == 0)
            us.append(dict(h="bad_stmt", prog=p, line=i, two=two, n=1 if (q or rot % 2) else 2, std=std, ic=bool(rot % 4), cm=(rot % 5 == 0), cost=2))
            if i > 0 and (not q or rot % 4 == 0):
                # garbage = a bare keyword that needs more text to be a statement; unit name symbolic
                us.append(dict(h="bad_stmt", prog=p, line=i, two=False, kw=rot % len(BARE), n=0, std=std, ic=True, symname=bool(rot % 8 == 0), cost=3))
    # garbage = a well-formed statement with one stray parenthesis at its end
    for p in PG.base_programs()[::(4 if q else 1)]:
        src = G.program_text(p, {})
        nlines = len([l for l in src.split("\n") if len(l) > 0])
        for i in range(1, nlines):
            rot += 1
            us.append(dict(h="bad_stmt", prog=p, line=i, two=False, stray=rot % len(STRAY), n=0, std="f2008" if (G.is_f08(p) or rot % 2) else "f2003", ic=True, cost=2))
    return us


STRAY = ["call s9", "q9 = r9 + 1", "print *, q9", "stop", "return", "continue", "cycle", "exit", "goto 10", "q9%r9 = 1", "nullify(q9)", "deallocate(q9)"]


def meta(tier):
    q = tier == "quick"
    return dict(bounds=dict(programs=len(PG.programs("quick" if q else "thorough")), statement="every statement (line) of every program",
                            garbage_len="1 (quick) / 1-2", garbage_alphabet=GARBAGE, stray="or one of %d well-formed statements followed by a stray ( or )" % len(STRAY), layouts="garbage on one physical line or continued over two"),
                assumptions=["free form; garbage characters cannot start any statement and are not comment/directive introducers"],
                budget_s=300 if q else 1200, unit_budget_s=60 if q else 300, witness_every=5)


def bad_stmt(ctx):
    p = ctx.p
    C.reset()
    vals = {}
    if p.get("symname"):
        vals = G.make_holes(ctx, {"n8": 2})
    src = G.program_text(p["prog"], vals)
    lines = [l for l in src.split("\n") if len(l) > 0]
    if p.get("stray") is not None:
        g = STRAY[p["stray"]] + ctx.chars("g", 1, ")(")
    elif p.get("kw") is not None:
        g = BARE[p["kw"]]
    else:
        g = ctx.chars("g", p["n"], GARBAGE)
    i = p["line"]
    if p["two"]:
        g2 = ctx.chars("h", 1, GARBAGE)
        new = ["  " + g + " &", "   & " + g2]
    else:
        new = ["  " + g]
    if p.get("cm"):
        # a trailing comment on every other line of the program
        noted = []
        for k, l in enumerate(lines):
            w = l.strip().split(" ")
            nxt = lines[k + 1].strip().split(" ") if k + 1 < len(lines) else [""]
            shared = w[0] == "do" and nxt[0] == "do" and len(w) > 1 and len(nxt) > 1 and w[1] == nxt[1] and w[1][:1].isdigit()
            # no comment between the DO statements of a shared-label nest (recorded finding of C11)
            noted.append(l if shared else l + " ! note")
        lines = noted
    lines = lines[:i] + new + lines[i + 1:]
    text = "\n".join(lines) + "\n"
    want_line = i + len(new)          # 1-based number of the last physical line of the garbage statement
    want_text = new[-1]
    ctx.observe("src", text)
    r = C.outcome(lambda: C.parse(text, p["std"], p["ic"]))
    ctx.observe("outcome", r[0])
    ctx.check(r[0] == "FortranSyntaxError", "garbage statement does not raise FortranSyntaxError but " + r[0])
    if r[0] != "FortranSyntaxError":
        return
    msg = str(r[2])
    ctx.observe("msg", msg)
    head = "at line %d\n>>>" % want_line
    ok_line = msg[:len(head)] == head
    ctx.check(ok_line, "error reported at another line than the one the offending statement ends on")
    if ctx.holds(ok_line):
        rest = msg[len(head):]
        ctx.check(rest[:len(want_text) + 1] == want_text + "\n", "error message quotes another text than the offending line")
