"""C08 ill-nested constructs and unbalanced parentheses are rejected.  Structural edits of valid
programs: delete the opening or the END line of an inner construct / contained subprogram /
type / interface, add a surplus END, rename the END's name to a symbolic different name, delete or
insert one parenthesis outside character context.  Every edited program must raise."""
from sse import api
from vh import common as C
from vh import progs as PG
from vh import gen as G
from vh import catalogue as T
from vh import lexer as LX

# (table, template name, context program builder)
NAMED_END = ["if_named", "do_named", "select_named", "block_named", "derived_type", "derived_type_ext", "derived_type_proc",
             "interface_generic", "interface_body"]


def _lines(p):
    return [l for l in G.program_text(p, {}).split("\n") if len(l) > 0]


def _paren_positions(line):
    """indices of ( and ) outside character literals"""
    out = []
    q = None
    for i, ch in enumerate(line):
        if q is None:
            if ch in "'\"":
                q = ch
            elif ch == "!":
                break
            elif ch in "()":
                out.append(i)
        elif ch == q:
            q = None
    return out


def units(tier):
    q = tier == "quick"
    us = []
    rot = 0
    # --- construct edits
    progs = []
    for c in T.CONS:
        progs.append((c[0], dict(unit="program", spec=[], exec=["call_plain", [c[0], ["assign"]], "continue"])))
        progs.append((c[0], dict(unit="program", spec=[], exec=[["if_then", [[c[0], ["assign"]], "call_plain"]]])))
        if not q:
            for o in ("do_count", "select_case", "do_label", "block", "if_else"):
                progs.append((c[0], dict(unit="program", spec=[], exec=[[o, ["continue", [c[0], ["assign"]]]]])))
    for s in ("derived_type", "derived_type_ext", "derived_type_proc", "derived_type_seq", "interface_generic", "interface_body", "interface_op", "enum"):
        progs.append((s, dict(unit="program", spec=[s], exec=["continue"])))
        progs.append((s, dict(unit="module", spec=[s], exec=["continue"])))
    for name, p in progs:
        tpl = None
        for tab in (T.CONS, T.SPEC):
            for e in tab:
                if e[0] == name:
                    tpl = e[1]
        nl = len(tpl.replace("{S}", "x").split("\n")) if "{S}" not in tpl else None
        lines = _lines(p)
        # locate the construct's first and last line inside the program text
        first_kw = T.fill(T.retag(tpl, 1 if p["exec"] and isinstance(p["exec"][0], list) and p["exec"][0][0] != name else 0), {}, {"S": "@"}).split("\n")
        start = None
        for i, l in enumerate(lines):
            if l.strip() == first_kw[0].strip():
                start = i
                break
        if start is None:
            continue
        end = None
        for i in range(len(lines) - 1, start, -1):
            if lines[i].strip() == first_kw[-1].strip():
                end = i
                break
        if end is None:
            continue
        f08 = G.is_f08(p)
        for edit in ("del_open", "del_end", "dup_end"):
            if tpl.split("\n")[-1].startswith("{L") and not tpl.split("\n")[-1].startswith("{L1} end do") and edit != "del_end":
                # removing 'DO 10 ...' leaves a valid labelled statement, and repeating '10 CONTINUE' only
                # breaks a label-uniqueness constraint: neither is a nesting error
                continue
            rot += 1
            us.append(dict(h="edit", prog=p, edit=edit, of=name, start=start, end=end, std="f2008" if (f08 or rot % 2) else "f2003", cost=1))
        if name in NAMED_END:
            us.append(dict(h="edit", prog=p, edit="rename_end", of=name, start=start, end=end, std="f2008", cm=True, cost=3))
            rot += 1
            us.append(dict(h="edit", prog=p, edit="rename_end", of=name, start=start, end=end, std="f2008" if (f08 or rot % 2) else "f2003", cost=3))
    # --- contained / external subprogram END edits
    for unit in ("module", "program_contains", "two_units", "subroutine", "function"):
        p = dict(unit=unit, spec=["int_decl"], exec=["assign"])
        lines = _lines(p)
        for i, l in enumerate(lines):
            w = l.strip().split(" ")
            if w[0] == "end" and len(w) >= 3:
                rot += 1
                us.append(dict(h="edit", prog=p, edit="rename_end", of=unit + ":" + w[1], start=0, end=i, std="f2003", cost=3))
                # same with comments retained and a comment line in front of every opening statement
                us.append(dict(h="edit", prog=p, edit="rename_end", of=unit + ":" + w[1], start=0, end=i, std="f2008", cm=True, cost=3))
                us.append(dict(h="edit", prog=p, edit="del_end", of=unit + ":" + w[1], start=0, end=i, std="f2008", cost=1))
            if w[0] in ("subroutine", "function") and i > 0:
                us.append(dict(h="edit", prog=p, edit="del_open", of=unit + ":" + w[0], start=i, end=i, std="f2003", cost=1))
    # --- parentheses
    for p in PG.base_programs():
        lines = _lines(p)
        f08 = G.is_f08(p)
        for li, l in enumerate(lines):
            # one surplus parenthesis at the end of every statement and after its first word
            # (also of statements that have no parentheses at all)
            if li > 0 or p.get("unit") != "program":
                pass
            if l.strip() not in ("continue", "call a", "a = b2 + 1") or li == 1:
                ends = [len(l)]
                w = l.strip().split(" ")[0]
                first = l.find(w) + len(w)
                if first < len(l) and w[-1:].isalpha():
                    ends.append(first)
                for k in ends:
                    for op in ("ins(", "ins)"):
                        rot += 1
                        us.append(dict(h="paren", prog=p, line=li, col=k, op=op, std="f2008" if (f08 or rot % 2) else "f2003", cost=1))
            pos = _paren_positions(l)
            if not pos:
                continue
            for k in pos:
                rot += 1
                std = "f2008" if (f08 or rot % 2) else "f2003"
                us.append(dict(h="paren", prog=p, line=li, col=k, op="del", std=std, cost=1))
                us.append(dict(h="paren", prog=p, line=li, col=k, op="ins(", std=std, cost=1))
                us.append(dict(h="paren", prog=p, line=li, col=k + 1, op="ins)", std=std, cost=1))
    return us


def meta(tier):
    return dict(bounds=dict(constructs=[c[0] for c in T.CONS], contexts="top level of a main program, inside IF; thorough adds DO/SELECT/BLOCK/labelled DO",
                            edits=["delete opening line", "delete END line", "duplicate END line", "END name := symbolic name of the same length, different ignoring case"],
                            parentheses="delete each parenthesis outside character context; insert ( before / ) after it; one surplus ( or ) at the end of every statement and after its first word (also where the statement has no parentheses)"),
                assumptions=["free form, ignore_comments=True", "renamed END names differ from the original ignoring case and are not keywords"],
                budget_s=400, unit_budget_s=150, witness_every=3)


OPENERS = ("subroutine", "function", "module", "program", "type", "interface", "if", "do", "select", "block", "associate", "critical", "enum")


def _with_comments(text):
    out = []
    for l in text.split("\n"):
        w = l.strip().split(" ")
        if w[0] in OPENERS or (len(w) > 1 and w[0][-1:] == ":"):
            out.append("! about to open " + w[0])
        out.append(l)
    return "\n".join(out)


def _rejected(ctx, text, std, what):
    ic = True
    if ctx.p.get("cm"):
        text = _with_comments(text)
        ic = False
    ctx.observe("src", text)
    r = C.outcome(lambda: str(C.parse(text, std, ic)))
    ctx.observe("outcome", r[0])
    ctx.check(r[0] != "ok", what)


def edit(ctx):
    p = ctx.p
    C.reset()
    lines = _lines(p["prog"])
    s, e = p["start"], p["end"]
    kind = p["edit"]
    if kind == "del_open":
        lines = lines[:s] + lines[s + 1:]
    elif kind == "del_end":
        lines = lines[:e] + lines[e + 1:]
    elif kind == "dup_end":
        lines = lines[:e + 1] + [lines[e]] + lines[e + 1:]
    else:
        words = lines[e].strip().split(" ")
        old = words[-1]
        if old.lower() in ("interface", "type", "do", "if", "select", "block", "associate", "critical", "enum", "where", "forall", "subroutine", "function", "module", "program"):
            # the END carries no name: give it one although the opening statement has none
            new = G.fresh_name(ctx, "e", 2)
            lines = lines[:e] + [" ".join(words + [new])] + lines[e + 1:]
            kind = "name_on_end"
        else:
            new = G.fresh_name(ctx, "e", len(old))
            G.require(ctx, new.lower() != old.lower())
            lines = lines[:e] + [" ".join(words[:-1] + [new])] + lines[e + 1:]
    tag = ""
    endl = _lines(p["prog"])[e].strip().lower().lstrip("0123456789").strip()      # the END DO may carry a label
    if kind in ("del_open", "dup_end") and (endl.startswith("end do") or endl.startswith("enddo")):
        for l in _lines(p["prog"])[:s]:
            w = l.strip().split(" ")
            if w[0] == "do" and len(w) > 1 and w[1][:1].isdigit():
                tag = " [dangling END DO inside a labelled DO]"
    _rejected(ctx, "\n".join(lines) + "\n", p["std"], "ill-nested program accepted (" + kind + " of " + p["of"] + ")" + tag)


def paren(ctx):
    p = ctx.p
    C.reset()
    lines = _lines(p["prog"])
    l = lines[p["line"]]
    k = p["col"]
    if p["op"] == "del":
        l = l[:k] + l[k + 1:]
    elif p["op"] == "ins(":
        l = l[:k] + "(" + l[k:]
    else:
        l = l[:k] + ")" + l[k:]
    lines = lines[:p["line"]] + [l] + lines[p["line"] + 1:]
    tpl = (p["prog"]["spec"] + [x for x in p["prog"]["exec"] if isinstance(x, str)] + [x[0] for x in p["prog"]["exec"] if not isinstance(x, str)])
    _rejected(ctx, "\n".join(lines) + "\n", p["std"], "statement with unbalanced parentheses accepted (%s at line %d col %d of %s)" % (p["op"], p["line"], p["col"], "+".join(tpl)))
