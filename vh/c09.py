"""C09 a parse is a function of its input, not of earlier parses.
 history: all histories h of length <= 2 (quick) / 3 over {create(f2003), create(f2008),
          parse(valid_i), parse(invalid_j)} followed by create(s); parse(x); the result (tree
          shape, printed text, str(SYMBOL_TABLES)) must equal the result from a hard-reset state.
          The unit name of the history programs and of the final program are symbolic (so equal
          / different names across parses -- what the global tables are keyed by -- are explored
          by the solver).  After every failing parse: current scope is None and the set of symbol
          tables is what it was before that parse.
 memo:    the memoised string_replace_map returns, for a symbolic line after a symbolic other
          call, what the un-memoised function returns, and a caller mutating the returned map does
          not change later results."""
from sse import api
from vh import common as C
from vh import gen as G
from fparser.two.parser import ParserFactory
from fparser.two.symbol_table import SYMBOL_TABLES
from fparser.common.readfortran import FortranStringReader
from fparser.common import splitline

VALID = [
    "program {u}\n  real :: cos(10)\n  x = cos(1)\nend program {u}\n",
    "program {u}\n  y = cos(z)\nend program {u}\n",
    "module {u}\ncontains\nsubroutine s(a)\n  block\n    integer :: q\n    q = a\n  end block\nend subroutine s\nend module {u}\n",
    "subroutine {u}\n  msg = \"Hello World\"; n = 1\nend subroutine {u}\n",
    "subroutine {u}\n  msg = \"hello world\"; n = 1\nend subroutine {u}\n",
]
INVALID = [
    "program {u}\n  x = sin(1, 2, 3)\nend program {u}\n",
    "subroutine {u}\n  integer :: a\n  a = = 1\nend subroutine {u}\n",
    "module {u}\ncontains\nsubroutine s\n  x = (1\nend subroutine s\nend module {u}\n",
    "x = 1\ny = (\nend\n",
    "subroutine s1\nend subroutine s1\nmodule {u}\ninteger :: k\nk = \nend module {u}\n",
    "subroutine {u}\n  integer :: sin\n  a = (/ 1,,2 /)\nend subroutine {u}\n",
    "module mm\ncontains\nsubroutine {u}\n  integer :: cos\n  x = (1\nend subroutine {u}\nend module mm\n",
]
# unit wrappers x failure bodies (soft no-match, exception raised inside a sub-rule, name mismatch);
# (text, the failing top-level unit carries the name {u})
WRAP = [
    ("program {u}\n{B}end program {u}\n", True),
    ("subroutine {u}\n{B}end subroutine {u}\n", True),
    ("function {u}()\n{B}end function {u}\n", True),
    ("{B}end\n", True),
    ("program {u}\ncontains\nsubroutine s\n{B}end subroutine s\nend program {u}\n", True),
    ("module mm\ncontains\nfunction {u}()\n{B}end function {u}\nend module mm\n", False),
    ("x = 1\ncontains\nsubroutine {u}\n{B}end subroutine {u}\nend\n", False),
]
BODY = ["  x = sin(1.0, 2.0)\n", "  do i = 1, 2\n  x = 1\n  end do nm\n", "  integer :: k\n  k = = 1\n", "  integer :: k\n  if (k) then\n  k = 1\n  end if nm\n"]
NOLD = len(INVALID)
TOPSAME = {}
for _w, _t in WRAP:
    for _b in BODY:
        TOPSAME["i%d" % len(INVALID)] = _t
        INVALID.append(_w.replace("{B}", _b))
CORE = ["c3", "c8"] + ["v%d" % i for i in range(len(VALID))] + ["i%d" % i for i in range(NOLD)]
NEW = ["i%d" % i for i in range(NOLD, len(INVALID))]
OPS = ["c3", "c8"] + ["v%d" % i for i in range(len(VALID))] + ["i%d" % i for i in range(len(INVALID))]


def units(tier):
    q = tier == "quick"
    us = []
    hs = [[a] for a in OPS] + [[a, b] for a in CORE for b in CORE] + [[a, b] for a in ("c8", "v0", "v2") for b in NEW] + [[b, a] for a in ("c8", "v0") for b in NEW]
    if not q:
        hs += [[a, b, c] for a in CORE for b in CORE for c in CORE if (a[0] == "i" or b[0] == "i" or c[0] == "i")]
        hs += [[a, b] for a in NEW for b in NEW]
    k = 0
    for h in hs:
        for fin in range(len(VALID)):
            k += 1
            if q and len(h) == 2 and k % 2:
                continue
            if not q and len(h) == 3 and k % 5:
                continue
            us.append(dict(h="history", hist=h, final=fin, same=(k % 4 == 0), std="f2008" if (fin == 2 or k % 2) else "f2003", cost=len(h)))
    for n in ((2,) if q else (2, 3)):
        us.append(dict(h="memo", n=n, cost=n))
    return us


def meta(tier):
    q = tier == "quick"
    return dict(bounds=dict(history_len=2 if q else 3, alphabet=OPS, valid_programs=len(VALID), invalid_programs=len(INVALID),
                            invalid_generated="7 unit wrappers (program, subroutine, function, main program without PROGRAM, internal subprogram, module function, internal subprogram of an unnamed main program) x 4 failure modes (intrinsic argument count, DO name mismatch, soft no-match, IF name mismatch)",
                            symbolic="unit name of the history programs and unit name of the final program (1 character each: equal or different)",
                            memo_line_len=2 if q else 3),
                assumptions=["the hard-reset reference = memo cleared, SYMBOL_TABLES.clear(), BLOCK counter 0, then the real ParserFactory.create(std) (validated against a fresh native process by witness replay)",
                             "synthetic BLOCK scope names are renumbered before comparing (process-wide counter by design)"],
                budget_s=400 if q else 1500, unit_budget_s=60 if q else 300, witness_every=10)


def _tables():
    return sorted([api.text(k) if api.is_concrete(k) else k for k in SYMBOL_TABLES._symbol_tables.keys()], key=lambda x: str(len(x)))


def _table_names():
    return list(SYMBOL_TABLES._symbol_tables.keys())


def _renumber(s):
    """replace the numbers of synthetic block names by their order of appearance"""
    out = []
    i = 0
    k = 0
    key = "block:"
    seen = []
    while True:
        j = s.find(key, i)
        if j < 0:
            out.append(s[i:])
            break
        e = j + len(key)
        while e < len(s) and s[e:e + 1].isdigit():
            e += 1
        num = s[j + len(key):e]
        if num not in seen:
            seen.append(num)
        out.append(s[i:j] + key + "#%d" % seen.index(num))
        i = e
    return "".join(out)


def _parse(std, src, real_create):
    if real_create:
        p = ParserFactory().create(std=std)
    else:
        from fparser.two import Fortran2003
        p = Fortran2003.Program
    return p(FortranStringReader(src))


def history(ctx):
    p = ctx.p
    C.reset()
    ua = ctx.chars("ua", 1, "pqPQ")
    ub = ctx.chars("ub", 1, "pqPQ")
    # ---- reference: hard reset, create, parse
    fin_src = VALID[p["final"]].replace("{u}", ub)
    ParserFactory().create(std=p["std"])
    ref = C.outcome(lambda: _parse(p["std"], fin_src, True))
    if ref[0] != "ok":
        ctx.fail("reference parse failed")
        return
    ref_s = _renumber(str(ref[1]))
    ref_r = _renumber(repr(ref[1]))
    ref_t = _renumber(str(SYMBOL_TABLES))
    # ---- history from a hard-reset state
    C.reset()
    ParserFactory().create(std="f2003")
    cur = "f2003"
    step = 0
    for op in p["hist"]:
        step += 1
        if op == "c3":
            ParserFactory().create(std="f2003")
            cur = "f2003"
        elif op == "c8":
            ParserFactory().create(std="f2008")
            cur = "f2008"
        else:
            # history programs get distinct unit names unless this unit explores name collisions
            uname = ua if p["same"] else ua + str(step)
            src = (VALID if op[0] == "v" else INVALID)[int(op[1:])].replace("{u}", uname)
            before = _table_names()
            r = C.outcome(lambda: _parse(cur, src, False))
            if r[0] != "ok":
                ctx.check(SYMBOL_TABLES.current_scope is None, "a failed parse leaves a scoping region open [%s ends in %s]" % (op, r[0]))
                after = _table_names()
                extra = [a for a in after if not api.disj([a == b for b in before if len(a) == len(b)])]
                missing = [b for b in before if not api.disj([a == b for a in after if len(a) == len(b)])]
                multi = " [units in front of the faulty unit of a multi-unit source]" if op == "i4" else ""
                ctx.check(len(extra) == 0, "a failed parse leaves symbol tables of its own behind [%s ends in %s]%s" % (op, r[0], multi))
                # the recorded finding needs equal unit names: only histories that reuse the name
                toplevel_same = bool(p["same"]) and (op in ("i0", "i1", "i2", "i4", "i5") or op[0] == "v" or TOPSAME.get(op, False))
                ctx.check(len(missing) == 0, "a failed parse removes a symbol table that existed before it" +
                          (" [unit name equal to that of an earlier parse]" if toplevel_same else " [only a nested unit shares the name]"))
                # bring the state back so that later steps are judged on their own
                SYMBOL_TABLES._current_scope = None
    # ---- create(s); parse(x)
    got = C.outcome(lambda: _parse(p["std"], fin_src, True))
    ctx.observe("got", got[0])
    ctx.check(got[0] == "ok", "valid program rejected after history (" + got[0] + ")")
    if got[0] != "ok":
        return
    gs, gr, gt = _renumber(str(got[1])), _renumber(repr(got[1])), _renumber(str(SYMBOL_TABLES))
    ctx.observe("s", gs)
    ctx.check((gs == ref_s) if len(gs) == len(ref_s) else False, "regenerated text depends on earlier parses")
    ctx.check((gr == ref_r) if len(gr) == len(ref_r) else False, "parse tree depends on earlier parses")
    ctx.check((gt == ref_t) if len(gt) == len(ref_t) else False, "symbol tables depend on earlier parses")


def memo(ctx):
    """wrapper(line) == inner(line) after another symbolic call; returned map not aliased"""
    C.reset()
    n = ctx.p["n"]
    alpha = "'\"() a1.eE+-"
    other = ctx.chars("o", n, alpha)
    line = ctx.chars("l", n, alpha)
    inner = None
    for c in splitline.string_replace_map.__closure__ or ():
        if callable(c.cell_contents):
            inner = c.cell_contents
    ctx.check(inner is not None, "memoised function not found")
    lower = bool(ctx.choose("lower", 2))
    r0 = splitline.string_replace_map(other, lower=lower)
    r1 = splitline.string_replace_map(line, lower=lower)
    want = inner(line, lower=lower)
    ctx.observe("nkeys", len(want[1]))
    ctx.check((r1[0] == want[0]) if len(r1[0]) == len(want[0]) else False, "memoised tokenisation differs from the un-memoised result")
    ks1 = list(r1[1].keys())
    ks2 = list(want[1].keys())
    ok = len(ks1) == len(ks2)
    ctx.check(ok, "memoised replacement map has other keys than the un-memoised one")
    if ok:
        conds = []
        for k in ks2:
            a, b = r1[1][k], want[1][k]
            conds.append((a == b) if len(a) == len(b) else False)
        ctx.check(api.conj(conds), "memoised replacement map differs from the un-memoised one")
