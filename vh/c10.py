"""C10 tree well-formedness: each node once, parent links = containment, root/get_root, walk()
visits every node once in pre-order = source order.  Asserted on every path of the program-level
exploration (so for every back-tracking pattern the symbolic lexemes can provoke) and on the tree
of the re-parse."""
from sse import api
from vh import common as C
from vh import progs as PG
from fparser.two.utils import Base, walk, StmtBase


def units(tier):
    return PG.program_units(tier, "wf_prog", ics=(True, False), rotate=True) + PG.corpus_units(tier, "wf_prog")


def meta(tier):
    q = tier == "quick"
    return dict(bounds=dict(programs=len(PG.programs(tier)), hole_lengths=PG.LENS_Q if q else PG.LENS_T, one_symbolic_hole_per_unit=True,
                            standards=["f2003", "f2008"], ignore_comments=[True, False]),
                assumptions=["names differ from keywords/intrinsics; labels distinct",
                             "graph checks are concrete per path; the solver quantifies over the lexemes that select the path"],
                budget_s=400 if q else 1200, unit_budget_s=60 if q else 300)


def _kids(node, out):
    """Base children of node, looking inside nested tuples/lists"""
    for c in node:
        if isinstance(c, Base):
            out.append(c)
        elif isinstance(c, (list, tuple)):
            _kids(c, out)


def tree_problems(root):
    """list of violated invariants (empty when well formed)"""
    bad = []
    seen = {}
    order = []
    stack = [(root, None)]
    if root.parent is not None:
        bad.append("root has a parent")
    while stack:
        node, par = stack.pop()
        if id(node) in seen:
            bad.append("node occurs twice: " + type(node).__name__)
            continue
        seen[id(node)] = node
        order.append(node)
        if par is not None and node.parent is not par:
            bad.append("parent of %s is %s, contained in %s" % (type(node).__name__, type(node.parent).__name__, type(par).__name__))
        if node.get_root() is not root:
            bad.append("get_root() of %s is not the root" % type(node).__name__)
        kids = []
        _kids(node.children, kids)
        for k in reversed(kids):
            stack.append((k, node))
    w = walk(root, Base)
    if len(w) != len(order):
        bad.append("walk() yields %d nodes, tree has %d" % (len(w), len(order)))
    else:
        for a, b in zip(w, order):
            if a is not b:
                bad.append("walk() order differs from pre-order at " + type(b).__name__)
                break
    # statements in walk order are in source order (reader line spans never go backwards)
    last = 0
    for n in w:
        it = getattr(n, "item", None)
        sp = getattr(it, "span", None) if it is not None else None
        if isinstance(n, StmtBase) and sp is not None:
            if sp[0] < last:
                bad.append("statement %s at line %d visited after line %d" % (type(n).__name__, sp[0], last))
            last = sp[0]
    return bad


def wf_prog(ctx):
    p = ctx.p
    C.reset()
    src, vals = PG.build(ctx)
    if not p["ic"]:
        from vh.c01 import with_comments
        src = with_comments(src)
    ctx.observe("src", src)
    r = C.outcome(lambda: C.parse(src, p["std"], p["ic"]))
    ctx.observe("outcome", r[0])
    if r[0] != "ok":
        ctx.fail("valid program rejected (" + r[0] + ")")
        return
    t = r[1]
    bad = tree_problems(t)
    ctx.observe("n_nodes", len(walk(t, Base)))
    ctx.check(len(bad) == 0, "tree not well formed: " + (bad[0] if bad else ""))
    s1 = str(t)
    C.reset()
    r2 = C.outcome(lambda: C.parse(s1, p["std"], p["ic"]))
    if r2[0] == "ok":
        bad2 = tree_problems(r2[1])
        ctx.check(len(bad2) == 0, "re-parsed tree not well formed: " + (bad2[0] if bad2 else ""))
