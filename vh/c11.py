"""C11 comments are kept exactly once and in place, or ignored without effect.
Comments are inserted into catalogue programs at every line boundary (full-line) and on every
line (trailing), one or two at a time, the text of the first one symbolic (3 printable characters
after '!', so quotes, '!', '&', '$' and directive-looking text are covered).
 keep:     comments(walk(tree)) == inserted comments in source order, each text unchanged; each occurs
           exactly once in str(tree), a trailing one on the line right after its statement
 ignore:   tree(P+K, ignore_comments) == tree(P)
 directives: with process_directives the same comments are Directive nodes exactly where the
           text has directive form (!$x, !dir$, !gcc$ at the start of a full-line comment)"""
from sse import api
from vh import common as C
from vh import progs as PG
from vh import gen as G
from vh import layout as LAY
from fparser.two.utils import walk, Base
from fparser.two import Fortran2003 as F


def _lines(p):
    return [l for l in G.program_text(p, {}).split("\n") if len(l) > 0]


def units(tier):
    q = tier == "quick"
    us = []
    rot = 0
    progs = PG.base_programs() + [dict(unit=u, spec=["int_decl"], exec=["assign", ["if_then", ["assign"]]]) for u in ("two_units", "module", "program_contains", "subroutine", "program_anon", "sub_then_anon", "anon_then_sub")]
    for p in progs:
        n = len(_lines(p))
        f08 = G.is_f08(p)
        spots = ([("full", i) for i in range(n + 1)] + [("trail", i) for i in range(n)] + [("cont", i) for i in range(1, n - 1)]
                 + [("semi", i) for i in range(1, n - 2)])
        for si, s in enumerate(spots):
            rot += 1
            if q and rot % 2 and p in PG.base_programs()[40:]:
                continue
            second = spots[(si * 7 + 3) % len(spots)] if rot % 3 == 0 else None
            if second == s:
                second = None
            us.append(dict(h="com_prog", prog=p, first=list(s), second=list(second) if second else None, std="f2008" if (f08 or rot % 2) else "f2003", cost=2))
    # reader kernel: where does the trailing comment of a line start?  every text over quotes, '!',
    # a letter and a blank (both quote kinds mixed, quotes inside the other kind of literal, doubled)
    for n in ((3, 4, 5, 6, 7) if q else (3, 4, 5, 6, 7, 8)):
        for form in ("free", "fixed"):
            us.append(dict(h="k_inline", n=n, form=form, cost=0))      # cost 0: explored first
    return us


def meta(tier):
    q = tier == "quick"
    return dict(bounds=dict(programs=len(PG.base_programs()) + 7, placements="every line boundary (full-line) and every line (trailing); 1-2 comments per program",
                            continued="inside a continued statement: trailing on the first part, a line between the parts, trailing on the last part; between the halves of a continued character literal",
                            reader_kernel="k_inline: 'a = <text>' for every text of <= %d characters over ' \" ! a blank, free and fixed form -- the trailing comment starts at the first '!' outside a character context" % (7 if q else 8),
                            symbolic="text of the first comment: 3 characters over printable ASCII; the whole text (kernel)"),
                assumptions=["free form", "a comment consisting of '!' and blanks compares modulo trailing blanks"],
                budget_s=400, unit_budget_s=60, witness_every=10)


def _is_directive(text):
    """oracle: directive form of a full-line comment (text starts with '!')"""
    low = text.lower()
    if low[:2] == "!$" and len(low) > 2 and api.char_in(low[2:3], "abcdefghijklmnopqrstuvwxyz"):
        return True
    if low[:5] == "!dir$" or low[:5] == "!gcc$":
        return True
    return False


def k_inline(ctx):
    """the reader splits 'a = <text>' into statement and trailing comment at the first '!' outside
    a character context (oracle: a scan with the quote state)"""
    from fparser.common.readfortran import FortranStringReader, Comment as RComment, Line
    p = ctx.p
    C.reset()          # the reader's memo must not carry entries of earlier paths
    n = p["n"]
    s = ctx.chars("s", n, "'\"!a ")
    q = None
    cut = None
    for i in range(n):
        c = s[i]
        if q is None:
            if c == "'":
                q = "'"
            elif c == '"':
                q = '"'
            elif c == "!":
                cut = i
                break
        elif c == q:
            q = None              # a doubled quote closes and re-opens: same effect
    ctx.assume(q is None or cut is not None)       # literals are closed where the line / statement ends
    if q is not None:
        return
    stmt = s if cut is None else s[:cut]
    pre = "" if p["form"] == "free" else "      "
    src = pre + "a = " + s + "\n" + pre + "b = 1\n"
    ctx.observe("src", src)
    items = list(FortranStringReader(src, ignore_comments=False))
    got = [("C", it.comment) if isinstance(it, RComment) else ("L", it.line) for it in items]
    ctx.observe("got", got)
    want = [("L", ("a = " + stmt).rstrip(" "))]
    if cut is not None:
        want.append(("C", s[cut:]))
    want.append(("L", "b = 1"))
    ctx.check(len(got) == len(want), "reader yields %d items for a statement with%s trailing comment and the next statement" % (len(got), "" if cut is not None else "out"))
    if len(got) != len(want):
        return
    for g, w in zip(got, want):
        ctx.check(g[0] == w[0], "statement / comment items out of order")
        a, b = g[1].rstrip(" "), w[1].rstrip(" ")
        ctx.check((a == b) if len(a) == len(b) else False, "trailing comment does not start at the first '!' outside a character literal")


def com_prog(ctx):
    p = ctx.p
    C.reset()
    lines = _lines(p["prog"])
    canon = "\n".join(lines) + "\n"
    t1 = ctx.chars("k", 3, "print")
    coms = [(p["first"][0], p["first"][1], "!" + t1)]
    if p["second"] is not None:
        coms.append((p["second"][0], p["second"][1], "! second one"))
    # build the text; expected comments in source order
    out = []
    expect = []
    skip_next = False
    joined = False
    for i in range(len(lines) + 1):
        for kind, at, text in coms:
            if kind == "full" and at == i:
                out.append("  " + text)
                expect.append(("full", text))
        if i < len(lines):
            if skip_next:
                skip_next = False
                continue
            l = lines[i]
            done = False
            for kind, at, text in coms:
                if kind == "cont" and at == i and not done:
                    # comments inside a continued statement: trailing on the first part, a comment
                    # line between the parts, trailing on the last part
                    pts = [x for x in LAY.split_points(l) if x[1] == 0]
                    lab, nm, body = LAY.oracle_item(l)
                    pts = [x for x in pts if x[0] > (0 if lab is None else 1) + (0 if nm is None else 2)]
                    lits = [x for x in LAY.split_points(l) if x[1] > 0 and LAY.tok_spans(l)[x[0]][0] == "s"]
                    if lits and (i + len(l)) % 2:
                        # inside a character literal: no trailing comment is possible on the first
                        # part; the symbolic comment is the line between the two halves
                        j, o = lits[len(lits) // 2]
                        lay = LAY.free_layout(l, j, o, True, None, ["   " + text])
                        if lay is not None:
                            phys = lay[0]
                            phys[-1] = phys[-1] + " ! end %d" % i
                            out += phys
                            expect.append(("full", text))
                            expect.append(("trail", "! end %d" % i))
                            done = True
                    if pts and not done:
                        j, o = pts[len(pts) // 2]
                        lay = LAY.free_layout(l, j, o, True, text[1:], ["   ! between parts %d" % i])
                        if lay is not None:
                            phys = lay[0]
                            phys[-1] = phys[-1] + " ! end %d" % i
                            out += phys
                            expect.append(("trail", text))
                            expect.append(("full", "! between parts %d" % i))
                            expect.append(("trail", "! end %d" % i))
                            done = True
                    if not done:
                        ctx.check(True, "not applicable")
                        return
            for kind, at, text in coms:
                if kind == "semi" and at == i and not done and i + 1 < len(lines) and not skip_next:
                    # two statements joined by ';' with a trailing comment: the comment follows both
                    out.append(l + " ; " + lines[i + 1].strip() + " " + text)
                    expect.append(("trail", text))
                    done = True
                    joined = True
            if done:
                if joined:
                    skip_next = True
                    joined = False
                continue
            for kind, at, text in coms:
                if kind == "trail" and at == i:
                    l = l + " " + text
                    expect.append(("trail", text, lines[i]))
            out.append(l)
    src = "\n".join(out) + "\n"
    ctx.observe("src", src)
    # ---- ignored
    r0 = C.outcome(lambda: C.parse(canon, p["std"], True))
    if r0[0] != "ok":
        ctx.fail("canonical program rejected")
        return
    C.reset()
    ri = C.outcome(lambda: C.parse(src, p["std"], True))
    ctx.check(ri[0] == "ok", "program with comments rejected when comments are ignored (" + ri[0] + ")")
    if ri[0] == "ok":
        ctx.check(C.same_shape(C.shape(r0[1]), C.shape(ri[1])), "ignored comments change the parse tree")
    # ---- kept
    C.reset()
    rk = C.outcome(lambda: C.parse(src, p["std"], False))
    tag = ""
    for kind, at, text in coms:
        i = at if kind in ("trail", "cont") else (at + 1 if kind == "semi" else at - 1)
        if 0 <= i < len(lines) - 1:
            a, b = lines[i].strip().split(" "), lines[i + 1].strip().split(" ")
            if a[0] == "do" and b[0] == "do" and len(a) > 1 and len(b) > 1 and a[1] == b[1] and a[1][:1].isdigit():
                tag = " [comment between the DO statements of a shared-label DO nest]"
    ctx.check(rk[0] == "ok", "program with comments rejected when comments are kept (" + rk[0] + ")" + tag)
    if rk[0] != "ok":
        return
    tree = rk[1]
    got = [c.items[0] for c in walk(tree, F.Comment) if len(c.items[0]) > 0]
    ctx.observe("got", got)
    ctx.check(len(got) == len(expect), "tree holds %s comments than the source" % ("more" if len(got) > len(expect) else "fewer"))
    if len(got) != len(expect):
        return
    for g, e in zip(got, expect):
        a, b = g.rstrip(" "), e[1].rstrip(" ")
        ctx.check((a == b) if len(a) == len(b) else False, "comment text changed or comments out of order")
    s1 = str(tree)
    ctx.observe("s1", s1)
    outl = [l.strip(" ") for l in s1.split("\n")]
    for e in expect:
        want = e[1].strip(" ")
        hits = [k for k, l in enumerate(outl) if len(l) == len(want) and l == want]
        ctx.check(len(hits) == 1, "comment occurs %d times in the regenerated text" % len(hits))
    # ---- directives
    C.reset()
    rd = C.outcome(lambda: C.parse(src, p["std"], False, process_directives=True))
    ctx.check(rd[0] == "ok", "program with comments rejected with process_directives (" + rd[0] + ")" + tag)
    if rd[0] == "ok":
        nodes = [n for n in walk(rd[1], (F.Comment, F.Directive)) if len(n.items[0]) > 0]
        ctx.check(len(nodes) == len(expect), "process_directives changes the number of comment nodes")
        if len(nodes) == len(expect):
            for n, e in zip(nodes, expect):
                want_dir = e[0] == "full" and _is_directive(e[1])
                ctx.check(isinstance(n, F.Directive) == bool(want_dir), "directive processing: wrong node type for a %s comment" % ("directive-form" if want_dir else "plain"))
                a, b = n.items[0].rstrip(" "), e[1].rstrip(" ")
                ctx.check((a == b) if len(a) == len(b) else False, "directive processing changes comment text or order")
