"""C12 the reader delivers each logical line once, in order, with exact line spans.
 items:   a statement between two others, laid out over continuation lines (every split point:
          token boundaries, inside tokens, inside character literals), with/without leading '&',
          trailing comment, blank/comment lines between the parts; expected items (text modulo
          blanks outside literals, label, construct name, (first,last) span, comments in order)
          known by construction.
 putback: symbolic schedules of get_item / put_item / look-ahead-and-restore over a stream with
          ';' statements, comments inside continuations: the remaining stream is unchanged."""
from sse import api
from vh import common as C
from vh import progs as PG
from vh import gen as G
from vh import catalogue as T
from vh import layout as LAY
from fparser.common.readfortran import FortranStringReader, Line, Comment


def corpus():
    """distinct one-line statements of the catalogue (template text, hole tags)"""
    seen = []
    out = []
    for table in (T.SPEC, T.EXEC, T.CONS):
        for e in table:
            txt = T.fill(e[1], {}, {"S": "continue"}) if False else e[1]
            for raw in txt.split("\n"):
                raw = raw.strip()
                if raw == "{S}" or raw == "" or raw in seen:
                    continue
                seen.append(raw)
                out.append(raw)
    return out + EXTRA


# statements carrying a label and / or a construct name (the catalogue has few of them)
EXTRA = ["{L1} {n9}: do {n1} = 1, {d1}", "{n9}: if ({n1} > {d1}) then", "{L1} if ({n1} > {d1}) {n2} = '{s1}'", "{L1} {n9}: select case ({n1})",
         "{L2} format ('{s1}', i{d1})", "{n9}: block", "{L1} end do {n9}"]


def units(tier):
    q = tier == "quick"
    us = []
    rot = 0
    for raw in corpus():
        line = T.fill(raw, {})
        holes = T.holes_of(raw)
        pts = LAY.split_points(line)
        if q:
            # all literal-interior points, plus up to 6 spread token points
            lit = [p for p in pts if p[1] > 0]
            tok = [p for p in pts if p[1] == 0]
            step = max(1, len(tok) // 6)
            pts = lit + tok[::step]
        for (j, o) in pts:
            for amp in (True, False):
                for var in ("plain", "trail", "blank", "comment", "both", "semi", "semi_trail"):
                    if q and var == "both":
                        continue
                    rot += 1
                    if q and var in ("blank", "comment") and rot % 2:
                        continue
                    sym = "com" if var in ("trail", "comment", "both", "semi_trail") else (holes[rot % len(holes)] if holes else None)
                    has_comments = var in ("trail", "comment", "both", "semi_trail")
                    ic = ((rot // 14) % 4 == 0) if has_comments else ((rot // 14) % 2 == 0)
                    us.append(dict(h="items", raw=raw, j=j, o=o, amp=amp, var=var, sym=sym, ic=ic, cost=1))
    # the statement on ONE physical line (not continued): every lexeme hole in turn, symbolic
    for raw in corpus():
        holes = T.holes_of(raw)
        for var in ("plain", "trail", "semi", "semi_trail", "pre"):
            for h in (holes or [None]):
                rot += 1
                if q and var != "plain" and rot % 3:
                    continue
                sym = "com" if (var in ("trail", "semi_trail") and rot % 2) else h
                us.append(dict(h="items", raw=raw, j=-1, o=0, amp=False, var=var, sym=sym, ic=bool(rot % 2), cost=0))
    for k, src in enumerate(STREAMS):
        for n in ((4, 6) if q else (4, 6, 8)):
            for skip in (0, 4, 7):
                us.append(dict(h="putback", stream=k, nops=n, skip=skip, ic=False, cost=5))
                us.append(dict(h="putback", stream=k, nops=n, skip=skip, ic=True, cost=5))
    return us


def meta(tier):
    q = tier == "quick"
    return dict(bounds=dict(statements=len(corpus()), split_points="every character position inside literals; token boundaries and token interiors" + (" (6 spread per statement)" if q else " (all)"),
                            variants=["plain", "trailing comment", "blank line between parts", "comment line between parts", "both", "';' after", "';' after + comment"],
                            one_line="every statement on ONE physical line, every hole symbolic in turn: alone, with trailing comment, followed by '; z = 3', preceded by 'z = 3 ;' (label / construct name on the second statement)",
                            symbolic="comment text (2 printable chars) or one lexeme hole of the statement (default length)",
                            putback_ops=6 if q else 8, streams=len(STREAMS)),
                assumptions=["free form; a split inside a character context uses a leading '&' and carries no trailing comment (standard 3.3.1.3.1)",
                             "';'-joined statements are compared case-insensitively here (their lower-casing is reported separately)"],
                budget_s=420 if q else 1500, unit_budget_s=60 if q else 300, witness_every=10)


def _describe(it):
    if isinstance(it, Comment):
        return ("C", it.comment, it.span)
    return ("L", LAY.squeeze(it.line), it.label, it.name, it.span)


def items(ctx):
    p = ctx.p
    C.reset()
    raw = p["raw"]
    vals = {}
    sym = p["sym"]
    if sym is not None and sym != "com":
        vals = G.make_holes(ctx, {sym: len(T.DEFAULTS[sym])})
    line = G.fill(raw, vals)
    trail = None
    fillers = []
    if p["var"] in ("trail", "both", "semi_trail"):
        trail = ctx.chars("tc", 2, "print") if sym == "com" else "tc"
    if p["var"] in ("blank", "both"):
        fillers.append("")
    if p["var"] in ("comment", "both"):
        fillers.append("  !" + (ctx.chars("fc", 2, "print") if sym == "com" else "fc"))
    if p["j"] < 0:
        lay = (["   " + ("z = 3 ; " if p["var"] == "pre" else "") + line + (" ; z = 3" if p["var"] in ("semi", "semi_trail") else "") + ((" !" + trail) if trail is not None else "")], "no")
    else:
        lay = LAY.free_layout(line, p["j"], p["o"], p["amp"], trail, fillers)
    if lay is None:
        ctx.check(True, "layout not applicable on this path")
        return
    phys, kind = lay
    semi = p["var"] in ("semi", "semi_trail", "pre")
    last_comment = None
    if semi and p["j"] >= 0:
        phys[-1] = phys[-1] + " ; z = 3"
    if p["var"] in ("trail", "both", "semi_trail") and p["j"] >= 0:
        last_comment = "! end"
        phys[-1] = phys[-1] + " " + last_comment
    src = "\n".join(["x = 1"] + phys + ["y = 2"]) + "\n"
    ctx.observe("src", src)
    got = [_describe(it) for it in FortranStringReader(src, ignore_comments=p["ic"])]
    ctx.observe("got", got)
    label, name, text = LAY.oracle_item(line)
    n = len(phys)
    # known reader limitation (recorded finding): label / construct name are taken from the first
    # physical line only; tag the cases where that differs from the whole statement
    first_core = phys[0]
    if trail is not None:
        first_core = first_core[:len(first_core) - len(trail) - 2]
    first_core = first_core.rstrip(" ")[:-1] if p["j"] >= 0 else line
    l1, n1, t1 = LAY.oracle_item(first_core + " zz")
    tag = ""
    if not ((l1 == label) and ((n1 is None) == (name is None)) and (n1 is None or (len(n1) == len(name) and n1 == name))):
        tag = " [label/construct name split from the statement by the continuation]"
    want = [("L", "x=1", None, None, (1, 1))] + ([("L", "z=3", None, None, (2, 2))] if p["var"] == "pre" else []) + [("L", LAY.squeeze(text), label, name, (2, 1 + n))]
    if semi and p["var"] != "pre":
        want.append(("L", "z=3", None, None, (2, 1 + n)))
    if not p["ic"]:
        if trail is not None:
            want.append(("C", "!" + trail, (2, 2)))
        for k, f in enumerate(fillers):
            if len(f) > 0:
                want.append(("C", f.strip(), (3 + k, 3 + k)))
        if last_comment is not None:
            want.append(("C", last_comment, (1 + n, 1 + n)))
    want.append(("L", "y=2", None, None, (2 + n, 2 + n)))
    ctx.check(len(got) == len(want), "reader yields %s items than the source has statements and comments" % ("more" if len(got) > len(want) else "fewer"))
    if len(got) != len(want):
        return
    for g, w in zip(got, want):
        ctx.check(g[0] == w[0], "item kinds out of order")
        if g[0] != w[0]:
            return
        if g[0] == "C":
            gc, wc = g[1].rstrip(" "), w[1].rstrip(" ")
            ctx.check((gc == wc) if len(gc) == len(wc) else False, "comment text changed")
            ctx.check(g[2] == w[2], "comment span wrong")
        else:
            g1, w1 = (g[1].lower(), w[1].lower()) if semi else (g[1], w[1])
            ctx.check((g1 == w1) if len(g1) == len(w1) else False, "statement text not joined correctly (" + kind + " split)" + tag)
            if semi:
                ctx.check((g[1] == w[1]) if len(g[1]) == len(w[1]) else False, "statement text changes letter case when the logical line contains ';'" + tag)
            ctx.check(g[2] == w[2], "label not extracted" + tag)
            ctx.check((g[3] == w[3]) if (g[3] is None) == (w[3] is None) else False, "construct name not extracted" + tag)
            ctx.check(g[4] == w[4], "line span wrong")


STREAMS = [
    "program p\n  a = b & ! c1\n   ! c2\n   & + c\n  x = 'ab&\n   &cd' ; nm: do i=1,2\n10 e = f; g = h\nend do nm\nend\n",
    "subroutine s\n! lead\n  call t(1, &\n  ! mid\n         2) ! tail\n\n  if (q) then; r = 1; end if\nend subroutine s\n",
    "program q\n  a = 1\n  include 'one.inc'\n  d = 4 ! after\n  include 'two.inc'\n  e = 5\nend program q\n",
]


def _drain(r):
    out = []
    while True:
        it = r.get_item()
        if it is None:
            break
        out.append(it)
    return out


INC_FREE = "  b = 2 ! inc trailing\n  ! inc last comment\n"
INC_FIX = "      c = 3\nC     fixed-form comment at the end\n"


def putback(ctx):
    p = ctx.p
    C.reset()
    api.clear_files()
    src = STREAMS[p["stream"]]
    d = api.workdir() + "/inc"
    api.put_file(d + "/one.inc", INC_FREE)
    api.put_file(d + "/two.inc", INC_FIX)
    ref = [_describe(it) for it in _drain(FortranStringReader(src, ignore_comments=p["ic"], include_dirs=[d]))]
    r = FortranStringReader(src, ignore_comments=p["ic"], include_dirs=[d])
    pos = 0            # index in ref of the next item the reader should deliver
    held = []          # items got and not yet put back (most recent last)
    for _ in range(p.get("skip", 0)):
        if r.get_item() is not None:
            pos += 1
    sched = []
    for k in range(p["nops"]):
        op = ctx.choose("op%d" % k, 3)
        if op == 0:
            it = r.get_item()
            sched.append("get")
            if it is None:
                ctx.check(pos == len(ref), "get_item returned None before the end of the stream")
                break
            ctx.check(pos < len(ref) and _describe(it) == ref[pos], "get_item delivered an unexpected item")
            held.append(it)
            pos += 1
        elif op == 1:
            if held:
                r.put_item(held.pop())
                pos -= 1
                sched.append("put")
        else:
            # read two ahead and restore
            got = []
            for _ in range(2):
                it = r.get_item()
                if it is None:
                    break
                got.append(it)
            for it in reversed(got):
                r.put_item(it)
            sched.append("peek2")
    ctx.observe("sched", sched)
    rest = [_describe(it) for it in _drain(r)]
    ctx.observe("rest", rest)
    ctx.check(rest == ref[pos:], "stream after get/put schedule differs from the reference stream")
    api.clear_files()
