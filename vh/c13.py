"""C13 INCLUDE resolution is transparent; unresolved includes are kept.  A run of whole
statements of a catalogue program is moved into an include file (optionally a nested one) and
replaced by an INCLUDE line whose spelling (case, blanks, quote kind) and file name are symbolic;
the file lives in the first, the second or both include directories (a decoy with other content
in the later directory).  The tree must equal the tree of the original text.  With the file absent
the INCLUDE line must stay as an Include_Stmt node at its place and be re-emitted."""
from sse import api
from vh import common as C
from vh import progs as PG
from vh import gen as G
from vh import catalogue as T
from fparser.two.utils import walk, Base
from fparser.two import Fortran2003 as F
from fparser.common.readfortran import FortranStringReader, FortranFileReader


def _lines(p):
    return [l for l in G.program_text(p, {}).split("\n") if len(l) > 0]


def units(tier):
    q = tier == "quick"
    us = []
    rot = 0
    progs = [p for p in PG.base_programs()] + [dict(unit=u, spec=["int_decl", "real_kind"], exec=["assign", ["if_then", ["assign", "call_plain"]], "continue"]) for u in ("two_units", "module", "program_contains", "subroutine")]
    for p in progs:
        lines = _lines(p)
        n = len(lines)
        f08 = G.is_f08(p)
        runs = [(a, b) for a in range(1, n) for b in range(a + 1, n + 1) if b - a <= 5]
        if q:
            runs = runs[::max(1, len(runs) // 6)]
        for (a, b) in runs:
            rot += 1
            where = ("first", "second", "both", "absent")[rot % 4]
            if where == "absent" and rot % 8 >= 4:
                where = "absent_dir"       # no such file, but a directory of that name on the include path
            nested = 0
            if b - a >= 3:
                nested = (1, 2, 0)[rot % 3] if b - a >= 4 else (1, 0)[rot % 2]
            us.append(dict(h="inc_prog", prog=p, a=a, b=b, where=where, nested=nested, kind="string" if rot % 2 else "file",
                           std="f2008" if (f08 or rot % 2) else "f2003", ic=bool(rot % 3), cost=2))
    # the statement directly in front of every construct (itself preceded by a statement) becomes
    # the INCLUDE line: resolved, unresolved, unresolved with a directory of that name
    for c in T.CONS:
        p = dict(unit="program", spec=[], exec=["assign", "call_plain", [c[0], ["assign"]]])
        for where in ("first", "absent", "absent_dir"):
            rot += 1
            us.append(dict(h="inc_prog", prog=p, a=2, b=3, where=where, nested=0, kind="string" if rot % 2 else "file",
                           std="f2008" if (G.is_f08(p) or rot % 2) else "f2003", ic=bool(rot % 3), cost=1))
    # every single statement replaced by an INCLUDE line whose file does not exist
    for p in progs:
        n = len(_lines(p))
        for a in range(1, n):
            rot += 1
            us.append(dict(h="inc_prog", prog=p, a=a, b=a + 1, where="absent" if rot % 3 else "absent_dir", nested=0, kind="string" if rot % 2 else "file",
                           std="f2008" if (G.is_f08(p) or rot % 2) else "f2003", ic=bool(rot % 3), cost=1))
    return us


def meta(tier):
    return dict(bounds=dict(programs=len(PG.base_programs()) + 4, runs="runs of 1-5 whole statement lines; every single statement; the statement directly in front of every construct", include_dirs=2, nesting="0-2 nested includes",
                            placement=["first dir", "second dir", "both (decoy in the second)", "absent", "absent with a directory of that name in the first dir"],
                            reader_kinds=["FortranStringReader", "FortranFileReader"],
                            symbolic="file name (3 name characters), letter case of INCLUDE, quote kind, blanks after INCLUDE"),
                assumptions=["include files are written with two blanks of indentation; the nested reader detects their source form from their content",
                             "virtual file system in symbolic mode, a temporary directory natively"],
                budget_s=400, unit_budget_s=60, witness_every=5)


def _inc_line(ctx, fname, sym):
    if sym:
        kw = ctx.chars("kw", 7, ["iI", "nN", "cC", "lL", "uU", "dD", "eE"])
        q = ctx.chars("q", 1, "'\"")
        sp = " " * ctx.choose("sp", 3)        # 0, 1 or 2 blanks between INCLUDE and the file name
        return "  " + kw + sp + q + fname + q
    return "  include '" + fname + "'"


def inc_prog(ctx):
    p = ctx.p
    C.reset()
    api.clear_files()
    lines = _lines(p["prog"])
    canon = "\n".join(lines) + "\n"
    a, b = p["a"], p["b"]
    root = api.workdir()
    d1, d2 = root + "/d1", root + "/d2"
    stem = ctx.chars("f", 3, ["letter", "namec", "namec"])
    fname = stem + ".inc"
    moved = lines[a:b]
    tag = ""
    def text(ls):
        return "\n".join(["  " + l.strip() for l in ls]) + "\n"

    nested = p["nested"]
    inner = None
    deep = None
    firsts = [moved[0]]
    if nested == 0:
        body = text(moved)
    elif nested == 1:
        # outer file: first statement + include of the rest (>= 2 statements)
        body = text(moved[:1]) + "  include 'inner.inc'\n"
        inner = text(moved[1:])
        firsts.append(moved[1])
    else:
        body = text(moved[:1]) + "  include 'inner.inc'\n"
        inner = text(moved[1:2]) + "  include 'deep.inc'\n"
        deep = text(moved[2:])
        firsts += [moved[1], moved[2]]
    for fl in firsts:
        if fl.strip()[:1].isdigit():
            tag = " [include file starts with a statement label: detected as fixed form]"
    decoy = "  decoy = 1\n"
    where = p["where"]
    if where == "first":
        api.put_file(d1 + "/" + fname, body)
    elif where == "second":
        api.put_file(d2 + "/" + fname, body)
    elif where == "both":
        api.put_file(d1 + "/" + fname, body)
        api.put_file(d2 + "/" + fname, decoy)
    elif where == "absent_dir":
        api.put_file(d1 + "/" + fname + "/other.inc", decoy)
        where = "absent"
    if inner is not None and where != "absent":
        # the inner file is in the first directory; a decoy of the same name sits next to the outer
        # file when that one lives in the second directory (first directory in order must win)
        api.put_file(d1 + "/inner.inc", inner)
        if where == "second":
            api.put_file(d2 + "/inner.inc", decoy)
        if deep is not None:
            api.put_file(d2 + "/deep.inc", deep)
    main = lines[:a] + [_inc_line(ctx, fname, True)] + lines[b:]
    src = "\n".join(main) + "\n"
    ctx.observe("main", src)
    api.put_file(root + "/src/main.f90", src)

    def go():
        if p["kind"] == "string":
            rd = FortranStringReader(src, include_dirs=[d1, d2], ignore_comments=p["ic"])
        else:
            rd = FortranFileReader(root + "/src/main.f90", include_dirs=[d1, d2], ignore_comments=p["ic"])
        return C.get_parser(p["std"])(rd)

    r0 = C.outcome(lambda: C.parse(canon, p["std"], p["ic"]))
    if r0[0] != "ok":
        ctx.fail("canonical program rejected")
        return
    C.reset(keep_files=True)
    r1 = C.outcome(go)
    ctx.observe("outcome", r1[0])
    if where != "absent":
        ctx.check(r1[0] == "ok", "program with resolved INCLUDE rejected (" + r1[0] + ")" + tag)
        if r1[0] == "ok":
            ctx.check(C.same_shape(C.shape(r0[1]), C.shape(r1[1])), "resolved INCLUDE changes the parse tree" + tag)
    else:
        unit_kw = ("program", "subroutine", "function", "module", "submodule", "block", "end", "contains", "integer")
        if r1[0] != "ok" or [l for l in moved if l.strip().split(" ")[0] in unit_kw]:
            # the source need not be valid with the line in place (an END / unit statement moved away)
            ctx.check(True, "not applicable")
            return
        incs = walk(r1[1], F.Include_Stmt)
        ctx.check(len(incs) == 1, "unresolved INCLUDE line: %d Include_Stmt nodes in the tree" % len(incs))
        s1 = str(r1[1])
        ctx.observe("s1", s1)
        want = "INCLUDE '" + fname + "'"
        hits = [l for l in s1.split("\n") if len(l.strip()) == len(want) and l.strip() == want]
        ctx.check(len(hits) == 1, "unresolved INCLUDE line not re-emitted exactly once")
    api.clear_files()
