"""C14 preprocessor directives are kept as nodes and do not disturb the Fortran.  Directive lines
of all kinds are inserted at the statement boundaries of catalogue programs (1-2 per program, the
first with a symbolic payload); the tree without the directive nodes must equal the tree of the
original program, the directive nodes must be the inserted lines in order with equal content, and
each must be present in the regenerated text."""
from sse import api
from vh import common as C
from vh import progs as PG
from vh import gen as G
from fparser.two.utils import walk, Base
from fparser.two import C99Preprocessor as CPP

# (kind, text builder from a 3-char symbolic identifier `x`, expected printed form)
KINDS = ["if", "ifdef", "ifndef", "elif", "else", "endif", "include", "define", "define_fn", "undef", "line", "marker", "error", "warning", "null", "cont", "cont3", "else_trail", "endif_trail", "error_str", "define_str", "include_bare", "include_sys", "cont_blank"]
# kinds whose payload is free text: symbolic printable characters (quotes, ';', '/', '*' ... included)
TEXT_KINDS = ("else_trail", "endif_trail", "error_str", "define_str")


def directive(kind, x):
    if kind == "if":
        return "#if " + x + " > 1", "#if " + x + " > 1"
    if kind == "ifdef":
        return "#ifdef " + x, "#ifdef " + x
    if kind == "ifndef":
        return "#  ifndef " + x, "#ifndef " + x
    if kind == "elif":
        return "#elif defined(" + x + ")", "#elif defined(" + x + ")"
    if kind == "else":
        return "#else", "#else"
    if kind == "endif":
        return "#endif", "#endif"
    if kind == "include":
        return '#include "' + x + '.h"', '#include "' + x + '.h"'
    if kind == "include_bare":
        return '#include "' + x + '"', '#include "' + x + '"'
    if kind == "include_sys":
        return "#include <" + x + ">", "#include <" + x + ">"
    if kind == "define":
        return "#define " + x + " 42", "#define " + x + " 42"
    if kind == "define_fn":
        return "#define " + x + "(a, b) a + b", "#define " + x + "(a, b) a + b"
    if kind == "undef":
        return "#undef " + x, "#undef " + x
    if kind == "line":
        return '#line 12 "' + x + '"', '#line 12 "' + x + '"'
    if kind == "marker":
        return '# 7 "' + x + '" 2', '# 7 "' + x + '" 2'
    if kind == "error":
        return "#error " + x + " went wrong", "#error " + x + " went wrong"
    if kind == "warning":
        return "#warning " + x, "#warning " + x
    if kind == "null":
        return "#", "#"
    if kind == "cont":
        return "#define " + x + " 1 + \\\n   2", None
    if kind == "cont_blank":
        # the last continuation line is empty (a trailing backslash followed by a blank line)
        return "#define " + x + " 1 + \\\n", None
    if kind == "else_trail":
        return "#else /* " + x + " */", "#else /* " + x + " */"
    if kind == "endif_trail":
        return "#endif // " + x, "#endif // " + x
    if kind == "error_str":
        return '#error "' + x + ' here"', '#error "' + x + ' here"'
    if kind == "define_str":
        return '#define MSG "a' + x + 'b"', '#define MSG "a' + x + 'b"'
    if kind == "cont3":
        return "#define " + x + " 1 + \\\n   2 + \\\n   3", None
    raise ValueError(kind)


def _lines(p):
    return [l for l in G.program_text(p, {}).split("\n") if len(l) > 0]


def units(tier):
    q = tier == "quick"
    us = []
    rot = 0
    progs = PG.base_programs() + [dict(unit=u, spec=["int_decl"], exec=["assign", ["if_then", ["assign"]]]) for u in ("two_units", "module", "program_contains", "subroutine", "program_anon", "sub_then_anon", "anon_then_sub")]
    for p in progs:
        n = len(_lines(p))
        f08 = G.is_f08(p)
        for at in range(n + 1):
            rot += 1
            if q and rot % 2 and p in PG.base_programs()[60:]:
                continue
            kind = KINDS[rot % len(KINDS)]
            second = None
            if rot % 3 == 0:
                second = [(at * 5 + 2) % (n + 1), KINDS[(rot // 3) % len(KINDS)]]
            us.append(dict(h="cpp_prog", prog=p, at=at, kind=kind, second=second, std="f2008" if (f08 or rot % 2) else "f2003", ic=bool(rot % 4), cost=2))
            # the same with a shorter identifier and a comment / blank line right after the directive
            ls = _lines(p)
            shared = 0 < at < n and _shared_do(ls[at - 1], ls[at])
            if (rot % 3 == 1 or at in (0, n)) and not shared:
                us.append(dict(h="cpp_prog", prog=p, at=at, kind=KINDS[(rot // 2) % len(KINDS)], second=None, std="f2008" if f08 else "f2003", ic=bool(rot % 2),
                               xlen=1 + rot % 2, follow=("comment", "blank", "trail")[rot % 3], cost=2))
    return us


def _shared_do(x, y):
    a, b = x.strip().split(" "), y.strip().split(" ")
    return a[0] == "do" and b[0] == "do" and len(a) > 1 and len(b) > 1 and a[1] == b[1] and a[1][:1].isdigit()


def meta(tier):
    return dict(bounds=dict(programs=len(PG.base_programs()) + 4, positions="every statement boundary (incl. before/after the units)", directives_per_program="1-2",
                            kinds=KINDS, neighbours="comment line, blank + comment line, or trailing comment on the previous statement next to the directive (comments kept or ignored)",
                            symbolic="identifier / file name / message word of the first directive: 1-3 characters [A-Za-z][A-Za-z0-9_]*, or 2 printable characters of free text (trailing text, quoted strings)"),
                assumptions=["free form", "the symbolic identifier is a name (no ';', quotes or blanks)"],
                budget_s=400, unit_budget_s=60, witness_every=10)


def _is_cpp(n):
    return type(n).__name__.startswith("Cpp_")


def _strip_shape(t, drop_empty_implicit=False, merge_parts=False):
    """shape without preprocessor nodes"""
    def sh(node):
        if isinstance(node, Base):
            kids = [sh(c) for c in node.children if not (isinstance(c, Base) and _is_cpp(c))]
            if drop_empty_implicit:
                kids = [k for k in kids if not (isinstance(k, list) and len(k) == 4 and k[0] in ("Implicit_Part", "Specification_Part") and k[3] == [])]
            if merge_parts:
                merged = []
                for k in kids:
                    if (merged and isinstance(k, list) and len(k) == 4 and k[0] == "Component_Part" and isinstance(merged[-1], list)
                            and len(merged[-1]) == 4 and merged[-1][0] == "Component_Part"):
                        merged[-1] = [k[0], merged[-1][1], merged[-1][2], merged[-1][3] + k[3]]
                    else:
                        merged.append(k)
                kids = merged
            it = getattr(node, "item", None)
            lab = getattr(it, "label", None) if it is not None else None
            nm = getattr(it, "name", None) if it is not None else None
            return [type(node).__name__, lab, nm, kids]
        if isinstance(node, (list, tuple)):
            return [sh(c) for c in node]
        return node
    return sh(t)


def _top_cpp(t):
    """preprocessor statement nodes in tree order (outermost Cpp_ nodes only)"""
    out = []

    def rec(node):
        if isinstance(node, Base):
            if _is_cpp(node):
                out.append(node)
                return
            for c in node.children:
                rec(c)
        elif isinstance(node, (list, tuple)):
            for c in node:
                rec(c)
    rec(t)
    return out


def cpp_prog(ctx):
    p = ctx.p
    C.reset()
    lines = _lines(p["prog"])
    follow = p.get("follow")
    if follow == "comment":
        lines = lines[:p["at"]] + ["  ! note"] + lines[p["at"]:]
    elif follow == "blank":
        lines = lines[:p["at"]] + ["", "  ! note"] + lines[p["at"]:]
    elif follow == "trail" and p["at"] > 0:
        lines[p["at"] - 1] = lines[p["at"] - 1] + " ! note"
    canon = "\n".join(lines) + "\n"
    if p["kind"] in TEXT_KINDS:
        x = ctx.chars("x", 2, "print")
        G.require(ctx, x.rstrip(" ")[-1:] != "\\")          # a trailing backslash would continue the line
        # inside the quotes of #error "..." / #define MSG "..." a ';' is harmless on the pristine tree
        tagsemi = " [';' in a directive]" if (";" in x and p["kind"] in ("else_trail", "endif_trail")) else ""
        G.require(ctx, api.conj([ch != '"' for ch in x]))
    else:
        x = G.fresh_name(ctx, "x", p.get("xlen", 3))
        tagsemi = ""
    ins = [(p["at"], p["kind"], x)]
    if p["second"] is not None:
        ins.append((p["second"][0], p["second"][1], "SECOND"))
    out = []
    expect = []
    for i in range(len(lines) + 1):
        for at, kind, ident in ins:
            if at == i:
                text, printed = directive(kind, ident)
                out.append(text)
                expect.append((kind, text, printed))
        if i < len(lines):
            out.append(lines[i])
    src = "\n".join(out) + "\n"
    ctx.observe("src", src)
    r0 = C.outcome(lambda: C.parse(canon, p["std"], p["ic"]))
    if r0[0] != "ok":
        ctx.fail("canonical program rejected")
        return
    C.reset()
    r1 = C.outcome(lambda: C.parse(src, p["std"], p["ic"]))
    tag = ""
    for at, kind, ident in ins:
        if 0 < at < len(lines):
            if _shared_do(lines[at - 1], lines[at]):
                tag = " [directive between the DO statements of a shared-label DO nest]"
    tag += tagsemi
    ctx.check(r1[0] == "ok", "program with preprocessor directives rejected (" + r1[0] + ")" + tag)
    if r1[0] != "ok":
        return
    t = r1[1]
    exact = C.same_shape(_strip_shape(r0[1]), _strip_shape(t))
    if not ctx.holds(exact) and ctx.holds(C.same_shape(_strip_shape(r0[1], True), _strip_shape(t, True))):
        ctx.check(exact, "preprocessor directives change the parse of the Fortran [directive wrapped in extra Specification_Part / Implicit_Part nodes]" + tagsemi)
    elif not ctx.holds(exact) and ctx.holds(C.same_shape(_strip_shape(r0[1], False, True), _strip_shape(t, False, True))):
        ctx.check(exact, "preprocessor directives change the parse of the Fortran [Component_Part of a derived type split in two at the directive]" + tagsemi)
    else:
        ctx.check(exact, "preprocessor directives change the parse of the Fortran" + tagsemi)
    nodes = _top_cpp(t)
    ctx.observe("ncpp", len(nodes))
    ctx.check(len(nodes) == len(expect), "tree holds %s directive nodes than lines were inserted" % ("more" if len(nodes) > len(expect) else "fewer") + tagsemi)
    s1 = str(t)
    ctx.observe("s1", s1)
    if len(nodes) == len(expect):
        for n, e in zip(nodes, expect):
            if e[2] is not None:
                got = str(n).rstrip(" ")
                want = e[2].rstrip(" ")
                if e[0] == "include_sys":
                    # '#include <h>' is printed as '#include "h"' (pinned by the repository's tests): recorded finding
                    alt = want.replace("<", '"').replace(">", '"')
                    if ctx.holds((got == alt) if len(got) == len(alt) else False):
                        ctx.check(False, "directive content changed (include_sys) [angle-bracket include printed with double quotes]")
                        continue
                ctx.check((got == want) if len(got) == len(want) else False, "directive content or order changed (%s)" % e[0] + tagsemi)
    outl = [l.strip(" ") for l in s1.split("\n")]
    for e in expect:
        if e[2] is not None:
            want = e[2].strip(" ")
            if e[0] == "include_sys":
                want = want.replace("<", '"').replace(">", '"')     # see the recorded finding above
            hits = [k for k, l in enumerate(outl) if len(l) == len(want) and l == want]
            ctx.check(len(hits) >= 1, "directive missing from the regenerated text (%s)" % e[0] + tagsemi)
