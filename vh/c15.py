"""C15 OpenMP conditional-compilation sentinels.  Statements of a valid program are hidden behind
the conditional sentinel ('!$ ' free form; '!$', 'c$', '*$' in columns 1-2 fixed form), possibly
continued over sentinel lines.  Enabled: tree == tree of the program with blanks for the sentinel.
Disabled (default) with comments ignored: tree == tree of the program without those statements.
'!$omp ...' directive lines are comments in both modes.  The character after '!$' is symbolic
(blank -> conditional line, anything else -> comment)."""
from sse import api
from vh import common as C
from vh import progs as PG
from vh import gen as G
from vh import catalogue as T
from vh import layout as LAY

SIMPLE = ["assign", "assign_arr", "assign_str", "assign_real", "assign_logic", "assign_call", "call_args", "call_plain", "call_kw",
          "if_stmt", "print_star", "write_star", "read_star", "open_stmt", "close_stmt", "allocate", "deallocate", "stop_code", "continue",
          "where_stmt", "nullify", "ptr_assign", "assign_paren", "assign_pow"]


def units(tier):
    q = tier == "quick"
    us = []
    rot = 0
    for name in SIMPLE:
        e = T.by_name(T.EXEC, name)
        holes = T.holes_of(e[1])
        line = T.fill(e[1], {})
        pts = [x for x in LAY.split_points(line) if x[1] == 0]
        for form in ("free", "fixed"):
            if form == "fixed" and "fix" not in T.flags(e):
                continue
            for slot in (0, 1, 2, 3):          # which statements carry the sentinel: bit mask over two slots
                if slot == 0:
                    continue
                rot += 1
                sym = holes[rot % len(holes)] if (holes and rot % 2) else "sent"
                us.append(dict(h="omp", stmt=name, form=form, slots=slot, cont=None, sym=sym, ind=rot % 4, strict=(rot % 3 == 0), cost=2))
            if form == "fixed":
                for lab in ("150", "15 ", " 15", "  7"):
                    rot += 1
                    us.append(dict(h="omp", stmt=name, form=form, slots=1 + rot % 3, cont=None, sym="sent", ind=0, strict=(rot % 3 == 0), lab=lab, cost=2))
            for (j, o) in (pts if not q else pts[::max(1, len(pts) // 2)]):
                rot += 1
                us.append(dict(h="omp", stmt=name, form=form, slots=1, cont=[j, o], sym="sent" if rot % 2 else "mark", ind=rot % 4, strict=(rot % 3 == 0), cost=2))
                # two continuation lines with a blank / comment line between them
                us.append(dict(h="omp", stmt=name, form=form, slots=1, cont=[j, o], three=("comment", "blank")[rot % 2], sym="mark" if rot % 2 else "sent", ind=(rot + 1) % 4, strict=(rot % 3 == 1), cost=3))
            # a character literal of the conditional statement continued in character context
            if form == "free":
                for (j, o) in [x for x in LAY.split_points(line) if x[1] > 0 and LAY.tok_spans(line)[x[0]][0] == "s"]:
                    rot += 1
                    shole = [h for h in holes if h[0] == "s"]
                    us.append(dict(h="omp", stmt=name, form=form, slots=1 + rot % 3, cont=[j, o], lit=True, sym=(shole[0] if (shole and rot % 2) else "sent"), ind=rot % 4, strict=False, cost=2))
    return us


def meta(tier):
    return dict(bounds=dict(statements=SIMPLE, forms=["free", "fixed"], subsets="1 or 2 sentinel statements out of 2 slots between ordinary statements",
                            continuation="one or two continuations at token boundaries (blank / comment line between), sentinel on all lines; free form: the statement's character literal continued in character context at every interior position",
                            labels="fixed form: statement label in columns 3-5 of the conditional line (150, '15 ', ' 15', '  7')",
                            symbolic="one lexeme hole, the character after '!$' (free) / the sentinel letter and column 6 (fixed), the continuation '&' presence"),
                assumptions=["ignore_comments=True for the comparisons; directives (!$omp) present in every program"],
                budget_s=300, unit_budget_s=60, witness_every=5)


def _render(form, text, label=None, cont=None):
    if form == "free":
        return "  " + text
    return LAY.fixed_line(label, text, cont)


def omp(ctx):
    p = ctx.p
    C.reset()
    e = T.by_name(T.EXEC, p["stmt"])
    vals = {}
    sym = p["sym"]
    if sym not in ("sent", "mark"):
        vals = G.make_holes(ctx, {sym: len(T.DEFAULTS[sym])})
    stmt = G.fill(e[1], vals)
    form = p["form"]
    # the character(s) that make the line a conditional line
    is_cond = True
    if form == "free":
        after = ctx.chars("after", 1, " abcdefghijklmnopqrstuvwxyz&0123456789!$") if sym == "sent" else " "
        is_cond = bool(after == " ")
        sent1 = " " * p.get("ind", 0) + "!$" + after
    else:
        s0 = ctx.chars("s0", 1, "!*cC") if sym == "sent" else "!"
        c6 = ctx.chars("c6", 1, " 0") if sym == "sent" else " "
        sent1 = s0 + "$" + p.get("lab", "   ") + c6
    pieces = [stmt]
    if p["cont"] is not None:
        sp = LAY.tok_spans(stmt)
        j, o = p["cont"]
        if j >= len(sp) or j == 0:
            ctx.check(True, "not applicable")
            return
        cut = sp[j - 1][2]
        if p.get("lit"):
            if sp[j][0] != "s" or o >= sp[j][2] - sp[j][1]:
                ctx.check(True, "not applicable")
                return
            cut = sp[j][1] + o
        pieces = [stmt[:cut], stmt[cut:]]
        if p.get("three"):
            if j + 1 >= len(sp):
                ctx.check(True, "not applicable")
                return
            cut2 = sp[j][2]
            pieces = [stmt[:cut], stmt[cut:cut2], stmt[cut2:]]
    amp = "&"
    mark = "&"
    if len(pieces) > 1 and sym == "mark":
        if form == "free":
            amp = ctx.chars("amp", 1, "& ")
        else:
            mark = ctx.chars("mark", 1, "print")
            G.require(ctx, mark != " ")
            G.require(ctx, mark != "0")

    def hidden(with_sentinel):
        out = []
        if form == "free":
            if len(pieces) == 1:
                out.append((sent1 if with_sentinel else "   ") + pieces[0])
            else:
                out.append((sent1 if with_sentinel else " " * p.get("ind", 0) + "   ") + pieces[0] + ("&" if p.get("lit") else " &"))
                for k in range(1, len(pieces)):
                    if k == 2:
                        out.append("" if p.get("three") == "blank" else "  ! between")
                    last = k == len(pieces) - 1
                    out.append((sent1 if with_sentinel else " " * p.get("ind", 0) + "   ") + amp + pieces[k] + ("" if last else "&"))
        else:
            blank1 = "  " + p.get("lab", "   ") + " "
            if len(pieces) == 1:
                out.append((sent1 if with_sentinel else blank1) + pieces[0])
            else:
                out.append((sent1 if with_sentinel else blank1) + pieces[0])
                for k in range(1, len(pieces)):
                    if k == 2:
                        out.append("" if p.get("three") == "blank" else "C between")
                    out.append(((s0 if sym == "sent" else "!") + "$   " if with_sentinel else "     ") + mark + pieces[k])
        return out
    def prog(kind):
        """kind: 'sent' (with sentinels), 'blank' (sentinel replaced by blanks), 'without' (statements removed)"""
        L = []
        L.append(_render(form, "program p"))
        L.append(_render(form, "integer :: a, b2"))
        L.append("!$omp parallel" if form == "free" else "c$omp parallel")
        L.append(_render(form, "a = 1"))
        for slot in (1, 2):
            if p["slots"] & slot:
                if kind == "sent":
                    L += hidden(True)
                elif kind == "blank":
                    L += hidden(False)
            L.append(_render(form, "b2 = a + %d" % slot))
        L.append("!$omp end parallel" if form == "free" else "*$omp end parallel")
        L.append(_render(form, "end program p"))
        return "\n".join(L) + "\n"
    src = prog("sent")
    ctx.observe("src", src)
    ref_on = prog("blank" if is_cond else "without")
    ref_off = prog("without")
    def tree(text, **kw):
        if form == "fixed" and p.get("strict"):
            # strict fixed form (F77 mode) set explicitly on the reader
            def go():
                from fparser.common.readfortran import FortranStringReader
                from fparser.common.sourceinfo import FortranFormat
                rd = FortranStringReader(text, ignore_comments=True, **kw)
                rd.set_format(FortranFormat(False, True))
                return C.get_parser("f2008")(rd)
            return C.outcome(go)
        return C.outcome(lambda: C.parse(text, "f2008", True, **kw))
    t_on = tree(src, include_omp_conditional_lines=True)
    C.reset()
    r_on = tree(ref_on)
    C.reset()
    t_off = tree(src)
    C.reset()
    r_off = tree(ref_off)
    if r_on[0] != "ok" or r_off[0] != "ok":
        ctx.fail("reference program rejected")
        return
    ctx.observe("on", t_on[0])
    ctx.check(t_on[0] == "ok", "program with conditional sentinels rejected when handling is enabled (" + t_on[0] + ")")
    if t_on[0] == "ok":
        ctx.observe("s_on", str(t_on[1]))
        ctx.check(C.same_shape(C.shape(t_on[1]), C.shape(r_on[1])), "enabled: tree differs from the program with the sentinel blanked" if is_cond else "enabled: a '!$x' comment line was not treated as a comment")
    ctx.check(t_off[0] == "ok", "program with conditional sentinels rejected when handling is disabled (" + t_off[0] + ")")
    if t_off[0] == "ok":
        ctx.check(C.same_shape(C.shape(t_off[1]), C.shape(r_off[1])), "disabled: tree differs from the program without the sentinel lines")
