"""C16 symbol tables mirror the scoping structure and drive intrinsic resolution.
Programs are built from scope shapes (main program, module with two contained subprograms,
program with BLOCK, program with internal function, two external subprograms); the name NAME
(symbolic, 3 characters quick / 4 thorough: every intrinsic of that length and every other name)
is declared as an array in a chosen subset of scopes and referenced as NAME(args) in every scope.
 - the table tree equals the scope tree known by construction (names, nesting, parents), the
   declaration is recorded in exactly the declaring scopes;
 - a reference is an Intrinsic_Function_Reference iff NAME is taken as an intrinsic when nothing
   is declared (K0) and no enclosing scope visible at that point declares it; declarations in
   sibling or inner scopes have no effect;
 - K0 itself is checked against a list of names that certainly are / are not intrinsics."""
from sse import api
from vh import common as C
from vh import gen as G
from fparser.two.utils import walk, Base
from fparser.two import Fortran2003 as F
from fparser.two.symbol_table import SYMBOL_TABLES

# scope shapes: list of scopes (id, parent id, opening lines, closing lines); {D<i>} declaration slot, {R<i>} reference slot
SHAPES = {
    "prog": [("p", None)],
    "module": [("m", None), ("s", "m"), ("t", "m")],
    "block": [("p", None), ("b", "p")],
    "internal": [("p", None), ("f", "p")],
    "externals": [("a", None), ("b", None)],
    "deep": [("m", None), ("s", "m"), ("b", "s")],
}
SURE_INTRINSIC = ["abs", "cos", "sin", "tan", "exp", "log", "max", "min", "mod", "int", "dim", "len", "sum", "any", "all", "real", "sqrt", "nint", "sign", "size", "acos", "iabs", "dcos", "max0", "char"]


def text(shape, name, decl, args, U=None, gap=""):
    """U: scope id -> spelling of the unit name (letter case may be symbolic); gap: blanks between
    the referenced name and its argument list"""
    src = _text(shape, name, decl, args, gap)
    if U:
        for sid, spelled in U.items():
            for kw in ("program ", "module ", "subroutine ", "function "):
                src = src.replace(kw + sid + "\n", kw + spelled + "\n").replace(kw + sid + "(", kw + spelled + "(")
    return src


def _text(shape, name, decl, args, gap=""):
    d = lambda s: ("  real :: " + name + "(10)\n") if s in decl else ""
    r = lambda s: "  y" + s + " = " + name + gap + "(" + args + ")\n"
    if shape == "prog":
        return "program p\n" + d("p") + r("p") + "end program p\n"
    if shape == "module":
        return ("module m\n" + d("m") + "contains\nsubroutine s()\n" + d("s") + r("s") + "end subroutine s\n"
                "subroutine t()\n" + d("t") + r("t") + "end subroutine t\nend module m\n")
    if shape == "block":
        return "program p\n" + d("p") + r("p") + "  block\n" + d("b").replace("  real", "    real") + r("b") + "  end block\n" + r("p").replace("yp", "zp") + "end program p\n"
    if shape == "internal":
        return "program p\n" + d("p") + r("p") + "contains\nfunction f()\n" + d("f") + r("f") + "  f = 1\nend function f\nend program p\n"
    if shape == "externals":
        return "subroutine a()\n" + d("a") + r("a") + "end subroutine a\nsubroutine b()\n" + d("b") + r("b") + "end subroutine b\n"
    if shape == "deep":
        return ("module m\n" + d("m") + "contains\nsubroutine s()\n" + d("s") + r("s") + "  block\n" + d("b") + r("b") + "  end block\n"
                "end subroutine s\nend module m\n")
    raise ValueError(shape)


def _subsets(xs):
    out = [[]]
    for x in xs:
        out += [o + [x] for o in out]
    return out


def units(tier):
    q = tier == "quick"
    us = []
    for shape, scopes in SHAPES.items():
        ids = [s[0] for s in scopes]
        for decl in _subsets(ids):
            for n in ((3, 4) if (not q or shape in ("prog",)) else (3,)):
                k = len(us)
                us.append(dict(h="scopes", shape=shape, decl=decl, n=n, std="f2008", gap=("", " ", "  ")[k % 3], pre=(None, "dup", "dupmod")[k % 3], cost=len(decl) + n))
    return us


def meta(tier):
    q = tier == "quick"
    return dict(bounds=dict(shapes=list(SHAPES), declaration_subsets="every subset of the scopes of each shape", name_len=3 if q else [3, 4],
                            spelling="0-2 blanks between the referenced name and '('", history="the program under test alone, or after a parse aborted by SymbolTableError inside a subroutine / a BLOCK of a module subprogram (same parser)",
                            symbolic="the declared / referenced name: every name [A-Za-z][A-Za-z0-9_]* of that length (all intrinsics of that length included)"),
                assumptions=["the argument count of the reference (1-3) is the first one the parser accepts when nothing is declared",
                             "names equal to statement keywords are excluded"],
                budget_s=400 if q else 1500, unit_budget_s=120 if q else 900, witness_every=20)


def _ancestors(scopes, sid):
    out = [sid]
    par = dict(scopes)
    while par[sid] is not None:
        sid = par[sid]
        out.append(sid)
    return out


def scopes(ctx):
    p = ctx.p
    C.reset()
    shape = p["shape"]
    sc = [(s[0], s[1]) for s in SHAPES[shape]]
    name = ctx.name("nm", p["n"])
    low = name.lower()
    for k in G.KEYWORDS:
        if len(k) == p["n"] and k not in SURE_INTRINSIC:
            G.require(ctx, low != k)
    for s in sc:   # scope / result names of the shapes themselves
        if len(s[0]) == p["n"]:
            G.require(ctx, low != s[0])
    # ---- K0: how is NAME(args) classified when nothing is declared?
    args = None
    k0 = None
    for cand in ("1", "1, 2", "1, 2, 3"):
        C.reset()
        r = C.outcome(lambda: C.parse(text("prog", name, [], cand), p["std"], True))
        if r[0] == "ok":
            args = cand
            refs = walk(r[1], (F.Intrinsic_Function_Reference, F.Part_Ref))
            k0 = len(refs) == 1 and isinstance(refs[0], F.Intrinsic_Function_Reference)
            break
    ctx.check(args is not None, "reference NAME(args) rejected for 1, 2 and 3 arguments")
    if args is None:
        return
    ctx.observe("k0", k0)
    # the oracle branches on the listed names itself (it must not rely on the implementation
    # having distinguished them on this path)
    is_sure = False
    for s in SURE_INTRINSIC:
        if len(s) == p["n"] and low == s:
            is_sure = True
    if is_sure:
        ctx.check(k0, "a standard intrinsic function name is not recognised as intrinsic")
    has_nonletter = api.disj([api.char_in(ch, "_") for ch in name])
    if has_nonletter:        # the oracle forks on its own classification
        ctx.check(not k0, "a name that cannot be an intrinsic is classified as intrinsic")
    # ---- the program under test
    C.reset()
    if p.get("pre"):
        # an earlier parse with the same parser that is aborted inside a scoping unit by a
        # SymbolTableError (duplicate declaration with checks enabled) must leave nothing behind
        bad = ("subroutine zz1()\n  integer :: q\n  integer :: q\nend subroutine zz1\n" if p["pre"] == "dup" else
               "module zz2\ncontains\nsubroutine zz3()\n  block\n    real :: w\n    real :: w\n  end block\nend subroutine zz3\nend module zz2\n")
        SYMBOL_TABLES.enable_checks(True)
        rb = C.outcome(lambda: C.parse(bad, p["std"], True))
        SYMBOL_TABLES.enable_checks(False)
        ctx.observe("pre", rb[0])
        ctx.check(rb[0] != "ok", "duplicate declaration accepted although symbol-table checks are enabled")
        ctx.check(SYMBOL_TABLES.current_scope is None, "an aborted parse leaves a scoping region open")
    U = {}
    for sid, par in sc:
        if sid != "b":
            U[sid] = ctx.chars("u" + sid, 1, sid + sid.upper())
    src = text(shape, name, p["decl"], args, U, p.get("gap", ""))
    ctx.observe("src", src)
    r = C.outcome(lambda: C.parse(src, p["std"], True))
    ctx.check(r[0] == "ok", "valid program rejected (" + r[0] + ")")
    if r[0] != "ok":
        return
    tree = r[1]
    # ---- references
    for node in walk(tree, (F.Intrinsic_Function_Reference, F.Part_Ref)):
        if not isinstance(node.parent, F.Assignment_Stmt):
            continue
        lhs = str(node.parent.items[0])
        sid = lhs[1:]                      # y<scope> / z<scope>
        visible = [s for s in _ancestors(sc, sid) if s in p["decl"]]
        want = bool(k0) and not visible
        ctx.check(isinstance(node, F.Intrinsic_Function_Reference) == want,
                  "reference in scope %s is %s although %s" % (sid, "not intrinsic" if want else "intrinsic",
                                                               "no visible scope declares the name" if want else ("a visible scope declares it" if visible else "the name is not an intrinsic")))
    # ---- table tree
    tops = [s[0] for s in sc if s[1] is None]
    names = sorted([str(k) for k in SYMBOL_TABLES._symbol_tables.keys()])
    ctx.observe("tables", names)
    ctx.check(names == sorted(tops), "top-level symbol tables differ from the program units of the source")
    if names != sorted(tops):
        return
    def find(sid):
        chain = _ancestors(sc, sid)[::-1]
        tab = SYMBOL_TABLES.lookup(chain[0])
        for c in chain[1:]:
            kids = [k for k in tab.children if (str(k.name) == c or (c == "b" and str(k.name).startswith("block:")))]
            if len(kids) != 1:
                return None
            if kids[0].parent is not tab:
                return None
            tab = kids[0]
        return tab
    for sid, par in sc:
        tab = find(sid)
        ctx.check(tab is not None, "scope %s has no (unique, correctly parented) symbol table" % sid)
        if tab is None:
            continue
        nkids = len([s for s in sc if s[1] == sid])
        ctx.check(len(tab.children) == nkids, "table of scope %s has %d children, the source has %d nested scopes" % (sid, len(tab.children), nkids))
        declared = sid in p["decl"]
        has = low in [api.text(k) if api.is_concrete(k) else k for k in tab._data_symbols.keys()] if False else (low in tab._data_symbols)
        ctx.check(bool(has) == declared, "declaration %s in the table of scope %s" % ("missing" if declared else "present although not declared there", sid))
    ctx.check(SYMBOL_TABLES.current_scope is None, "a scope is still open after a successful parse")
