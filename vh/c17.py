"""C17  F2008 parser accepts what the F2003 parser accepts and prints the same text; the F2003
parser rejects the F2008-only constructs.  Differential run inside one path: the same symbolic
program goes through both registries (each built by the real ParserFactory.create)."""
from sse import api
from vh import common as C
from vh import progs as PG
from vh import gen as G
from vh import lexer as LX


def units(tier):
    cu = PG.corpus_units(tier, "diff_prog", stds=("both",))
    cu = cu + rule_units(tier)
    if tier == "quick":
        return PG.program_units(tier, "diff_prog", stds=("both",), ics=(True,)) + cu
    return PG.program_units(tier, "diff_prog", stds=("both",), ics=(True, False), rotate=True) + cu


def meta(tier):
    q = tier == "quick"
    return dict(bounds=dict(programs=len(PG.programs(tier)), hole_lengths=PG.LENS_Q if q else PG.LENS_T, one_symbolic_hole_per_unit=True),
                assumptions=["names differ from keywords and from every intrinsic name of either standard",
                             "registries built by the real ParserFactory.create(std), cached per process"],
                budget_s=400 if q else 1200, unit_budget_s=60 if q else 300)


F2008_INTRINSICS = """acosh asinh atanh bessel_j0 bessel_j1 bessel_jn bessel_y0 bessel_y1 bessel_yn erf erfc erfc_scaled gamma hypot
log_gamma norm2 parity popcnt poppar leadz trailz bge bgt ble blt dshiftl dshiftr shifta shiftl shiftr maskl maskr merge_bits iall iany
iparity findloc storage_size is_contiguous image_index lcobound ucobound num_images this_image atomic_define atomic_ref
execute_command_line compiler_options compiler_version c_sizeof""".split()


def diff_prog(ctx):
    p = ctx.p
    C.reset()
    src, vals = PG.build(ctx)
    if not p["ic"]:
        from vh.c01 import with_comments
        src = with_comments(src)
    ctx.observe("src", src)
    f08 = G.is_f08(p["prog"]) if "prog" in p else (not p.get("c2003", True))
    r3 = C.outcome(lambda: str(C.parse(src, "f2003", p["ic"])))
    C.reset()
    r8 = C.outcome(lambda: str(C.parse(src, "f2008", p["ic"])))
    ctx.observe("o3", r3[0])
    ctx.observe("o8", r8[0])
    if f08:
        ctx.check(r8[0] == "ok", "F2008 construct rejected by the f2008 parser (" + r8[0] + ")")
        ctx.check(r3[0] != "ok", "F2008-only construct accepted by the f2003 parser")
        ctx.check(r3[0] in ("ok", "FortranSyntaxError"), "f2003 parser: F2008 construct ends in " + r3[0])
        return
    ctx.check(r3[0] == "ok", "valid F2003 program rejected by the f2003 parser (" + r3[0] + ")")
    if r3[0] == "ok":
        ctx.check(r8[0] == "ok", "program accepted by f2003 parser rejected by f2008 parser (" + r8[0] + ")")
        if r8[0] == "ok":
            ctx.observe("s8", r8[1])
            a, b = r3[1], r8[1]
            ctx.check((a.lower() == b.lower()) if len(a) == len(b) else False, "str(parse08(P)) differs from str(parse03(P)) beyond letter case")
            uses08 = False
            for kind, w in LX.tokens(src):
                if kind == "w" and api.is_concrete(w) and w.lower() in F2008_INTRINSICS:
                    uses08 = True
            if not uses08:
                ctx.check((a == b) if len(a) == len(b) else False, "str(parse08(P)) != str(parse03(P))")


# test inputs of the repository that are not valid Fortran (they test sloppy acceptance); the f2008 class rejects them
INVALID_INPUTS = [("Open_Stmt", "open(23, unit=24, file='hello')"), ("Open_Stmt", "open(23, file='hello', file='another')")]


def rule_units(tier):
    from sse import harvest
    us = []
    k = 0
    for name, text in harvest.cls_pairs():
        name = str(name)
        text = str(text)
        if name.startswith("Cpp_") or (name, text) in INVALID_INPUTS or name == "Open_Stmt":
            # Open_Stmt: the repository's inputs are mostly deliberately invalid (missing / duplicate unit)
            # and the f2008 class checks more; OPEN is covered by the program-level templates
            continue
        pos = [i for i, ch in enumerate(text) if ch.isalnum()]
        if not pos:
            continue
        step = max(1, len(pos) // 2) if tier == "quick" else max(1, len(pos) // 6)
        for i in pos[::step][: (2 if tier == "quick" else 6)]:
            k += 1
            us.append(dict(h="diff_rule", cls=name, text=text, at=i, cost=1))
    return us


def diff_rule(ctx):
    """rule-level differential on the repository's own test inputs (one letter/digit symbolic):
    whatever the f2003 rule class accepts, the class the f2008 parser uses for the same rule
    accepts too and prints the same text."""
    p = ctx.p
    C.reset()
    from fparser.two import Fortran2003, Fortran2008
    cname = api.text(p["cls"])
    c3 = getattr(Fortran2003, cname, None)
    c8 = getattr(Fortran2008, cname, None)
    if c8 is None or str(c8.__module__).count(".") < 3:
        c8 = c3       # only classes defined in a Fortran2008 rule module override the f2003 class
    if c3 is None or not isinstance(c3, type) or not isinstance(c8, type):
        ctx.check(True, "class not available under f2003")
        return
    text = p["text"]
    i = p["at"]
    ch = text[i]
    dom = "digit" if ch.isdigit() else ("upper" if ch.isupper() else "lower")
    s = text[:i] + ctx.chars("c", 1, dom) + text[i + 1:]
    ctx.observe("s", s)
    C.get_parser("f2003")
    r3 = C.outcome(lambda: c3(s))
    if r3[0] != "ok" or r3[1] is None:
        ctx.check(True, "not accepted under f2003")
        return
    s3 = str(r3[1])
    C.reset()
    C.get_parser("f2008")
    r8 = C.outcome(lambda: c8(s))
    ok = r8[0] == "ok" and r8[1] is not None
    ctx.check(ok, "rule %s: input accepted by the f2003 class is not accepted by the f2008 class" % cname)
    if ok:
        s8 = str(r8[1])
        ctx.observe("s8", s8)
        ctx.check((s3.lower() == s8.lower()) if len(s3) == len(s8) else False, "rule %s: f2008 class prints different text than the f2003 class" % cname)
