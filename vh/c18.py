"""C18  deepcopy / pickle of parse trees: succeed, print the same Fortran, same structure, well
formed (C10), share no node with the original; mutating the copy leaves the original alone."""
import copy
import pickle
from sse import api
from vh import common as C
from vh import progs as PG
from vh.c10 import tree_problems
from fparser.two.utils import Base, walk


def units(tier):
    return PG.program_units(tier, "copy_prog", ics=(True, False), rotate=True) + PG.corpus_units(tier, "copy_prog")


def meta(tier):
    q = tier == "quick"
    return dict(bounds=dict(programs=len(PG.programs(tier)), hole_lengths=PG.LENS_Q if q else PG.LENS_T, one_symbolic_hole_per_unit=True,
                            standards=["f2003", "f2008"], ignore_comments=[True, False]),
                assumptions=["the outcome does not depend on leaf values: the solver certifies 'for all lexemes', class coverage comes from the catalogue",
                             "symbolic leaves pickle through a same-process token table"],
                budget_s=400 if q else 1200, unit_budget_s=60 if q else 300)


def _ids(t):
    return set([id(n) for n in walk(t, Base)])


def copy_prog(ctx):
    p = ctx.p
    C.reset()
    src, vals = PG.build(ctx)
    if not p["ic"]:
        from vh.c01 import with_comments
        src = with_comments(src)
        # trees with preprocessor, include and directive nodes as well
        lines = src.split("\n")
        k = len(lines) // 2

        def is_do(l):
            w = l.strip().split(" ")
            return w[0] == "do" and len(w) > 1 and w[1][:1].isdigit()
        # not between the DO statements of a shared-label nest (recorded findings of C11 / C14):
        # skip forward over comment lines and labelled DO statements
        while 0 < k < len(lines) and (is_do(lines[k]) or lines[k].strip()[:1] == "!" or len(lines[k].strip()) == 0):
            k += 1
        src = "\n".join(["#define VERSION 3"] + lines[:k] + ["#ifdef DEBUG", "  include 'absent.inc'", "#endif", "!$omp barrier"] + lines[k:])
    ctx.observe("src", src)
    kw = dict(process_directives=True) if not p["ic"] else {}
    r = C.outcome(lambda: C.parse(src, p["std"], p["ic"], **kw))
    if r[0] != "ok":
        ctx.fail("valid program rejected (" + r[0] + ")")
        return
    t = r[1]
    s0 = str(t)
    sh0 = C.shape(t)
    for how in ("deepcopy", "pickle"):
        if how == "deepcopy":
            rc = C.outcome(lambda: copy.deepcopy(t))
        else:
            rc = C.outcome(lambda: pickle.loads(pickle.dumps(t)))
        ctx.observe(how, rc[0])
        if rc[0] != "ok":
            ctx.fail(how + " raises " + rc[0] + ": " + api.text(str(rc[2]))[:80])
            continue
        c = rc[1]
        ctx.check(str(c) == s0, how + ": copy prints different Fortran")
        ctx.check(C.same_shape(C.shape(c), sh0), how + ": copy differs structurally")
        bad = tree_problems(c)
        ctx.check(len(bad) == 0, how + ": copy not well formed: " + (bad[0] if bad else ""))
        ctx.check(len(_ids(c) & _ids(t)) == 0, how + ": copy shares nodes with the original")
        # mutate the copy: drop the last child of the first block node
        for n in walk(c, Base):
            cont = getattr(n, "content", None)
            if cont:
                cont.pop()
                break
        ctx.check(str(t) == s0, how + ": mutating the copy changed the original")
