"""C19 the legacy statement-level parser (fparser1, fparser.api.parse) round-trips its own output.
Catalogue programs of the F77/F90 subset ('one' templates) with one symbolic lexeme, free and fixed
form, analyze on/off:  body(str(parse1(str(parse1(P))))) == body(str(parse1(P))), the block
structure (depth, statement class) of both parses is equal, and the tokens of the regenerated
source equal the tokens of P (expression text carried unchanged)."""
from sse import api
from vh import common as C
from vh import progs as PG
from vh import gen as G
from vh import catalogue as T
from vh import lexer as LX
from vh import layout as LAY
from fparser import api as fapi


def _one(p, need_fix=False):
    def ok(table, name):
        f = T.flags(T.by_name(table, name))
        return "one" in f and (not need_fix or "fix" in f)
    for s in p.get("spec", []):
        if not ok(T.SPEC, s):
            return False
    for x in p.get("exec", []):
        if isinstance(x, str):
            if not ok(T.EXEC, x):
                return False
        elif not ok(T.CONS, x[0]):
            return False
    return True


def units(tier):
    q = tier == "quick"
    us = []
    rot = 0
    progs = []
    for p in PG.base_programs():
        if _one(p):
            if p.get("unit") == "module_spec":
                progs.append(p)
                continue
            for unit in ("program", "subroutine", "function"):
                pp = dict(p)
                pp["unit"] = unit
                progs.append(pp)
    # every unit context of the subset (typed functions, RESULT clauses, ENTRY ...)
    for u in T.UNITS:
        if "one" in T.flags(u) and u[0] not in ("program", "subroutine", "function", "module_spec") and not u[1].endswith("end function"):   # fparser1 completes a bare END statement with the unit name
            progs.append(dict(unit=u[0], spec=["int_decl"], exec=["assign"] if "{EXEC}" in u[1] else []))
    # nesting of the block constructs of the subset
    cons = [c[0] for c in T.CONS if "one" in T.flags(c)]
    for a in cons:
        for b in cons:
            if a in ("where_cons",):
                continue
            progs.append(dict(unit="program", spec=["int_decl"], exec=[[a, [[b, ["assign"]], "call_plain"]], "continue"]))
    for p in progs:
        holes = G.used_holes(p)
        groups = [{h: len(T.DEFAULTS[h])} for h in holes if h[0] != "o"] or [{}]
        if q:
            groups = groups[:3]
        for g in groups:
            rot += 1
            form = "fixed" if (rot % 3 == 0 and _one(p, True)) else "free"
            us.append(dict(h="rt1", prog=p, sym=g, form=form, analyze=bool(rot % 2), cost=2))
    return us + stmt_units(tier)


def meta(tier):
    return dict(bounds=dict(programs="catalogue templates flagged 'one' in program / subroutine / typed function context, every unit context flagged 'one' (RESULT clauses, typed result, ENTRY ...), all pairs of the subset's block constructs nested",
                            forms=["free", "fixed"], analyze=[False, True], symbolic="one lexeme hole (default length) per unit"),
                assumptions=["ignore_comments=True; the '!BEGINSOURCE' header line, indentation and blanks after a statement label are ignored",
                             "names differ from keywords/intrinsics"],
                budget_s=400, unit_budget_s=60, witness_every=10)


def body(s):
    """statements of a regenerated source: header/comment lines dropped, indentation dropped,
    blanks after a statement label collapsed"""
    out = []
    for l in s.split("\n"):
        l = l.strip(" ")
        if len(l) == 0 or l[:1] == "!":
            continue
        k = 0
        while k < len(l) and l[k:k + 1].isdigit():
            k += 1
        if 0 < k < len(l) and l[k:k + 1] == " ":
            l = l[:k] + " " + l[k:].lstrip(" ")
        out.append(l)
    return out


def _parse1(src, form, analyze):
    return fapi.parse(src, isfree=(form == "free"), isstrict=False, analyze=analyze, ignore_comments=True)


def _structure(t):
    return [(d, type(s).__name__) for s, d in fapi.walk(t)]


def rt1(ctx):
    p = ctx.p
    C.reset()
    vals = G.make_holes(ctx, p["sym"])
    # fparser1 is case-insensitive: a symbolic name must not collide with another name of the program
    used = G.used_holes(p["prog"])
    for t in vals:
        if t[0] == "n":
            for u in used:
                if u != t and u[0] == "n" and len(T.DEFAULTS[u]) == len(vals[t]):
                    G.require(ctx, vals[t].lower() != T.DEFAULTS[u].lower())
    src = G.program_text(p["prog"], vals)
    form = p["form"]
    if form == "fixed":
        out = []
        for l in src.split("\n"):
            if len(l) == 0:
                continue
            label, name, text = LAY.oracle_item(l)
            if name is not None:
                text = name + ": " + text
            out.append(LAY.fixed_line(None if label is None else str(label), text))
        src_in = "\n".join(out) + "\n"
    else:
        src_in = src
    ctx.observe("src", src_in)
    r1 = C.outcome(lambda: _parse1(src_in, form, p["analyze"]))
    ctx.check(r1[0] == "ok", "program of the subset rejected by fparser1 (" + r1[0] + ")")
    if r1[0] != "ok":
        return
    s1 = str(r1[1])
    b1 = body(s1)
    ctx.observe("b1", b1)
    st1 = _structure(r1[1])
    # the regenerated source is in the form of the input
    r2 = C.outcome(lambda: _parse1(s1, form, p["analyze"]))
    ctx.check(r2[0] == "ok", "fparser1 rejects its own output (" + r2[0] + ")")
    if r2[0] != "ok":
        return
    b2 = body(str(r2[1]))
    ok_len = len(b1) == len(b2)
    ctx.check(ok_len, "second round trip has %s statements" % ("more" if len(b2) > len(b1) else "fewer"))
    if ok_len:
        ctx.check(api.conj([(x == y) if len(x) == len(y) else False for x, y in zip(b1, b2)]), "second round trip changes the statements")
    ctx.check(st1 == _structure(r2[1]), "block structure changes on re-parsing")
    a = LX.normalise(LX.tokens(src))
    b = LX.normalise(LX.tokens("\n".join(b1)))
    ctx.check(len(a) == len(b), "regenerated source has %s tokens than the program" % ("more" if len(b) > len(a) else "fewer"))
    if len(a) == len(b):
        # fparser1 lower-cases names (case-insensitive legacy parser): words compare case-insensitively
        ctx.check(LX.same_tokens(a, b, ()), "regenerated tokens differ from the program's tokens")


def stmt_units(tier):
    from sse import harvest
    us = []
    k = 0
    for c in harvest.corpus1():
        spots = c["spots"]
        n = 2 if tier == "quick" else 6
        step = max(1, len(spots) // n)
        for sp in spots[::step][:n]:
            k += 1
            us.append(dict(h="rt1_stmt", text=str(c["text"]), spot=[int(x) for x in sp], analyze=False, cost=1))
    return us


def rt1_stmt(ctx):
    """a statement used by fparser1's own tests, inside a subroutine, one letter/digit of a name or
    number symbolic: the regenerated source must be accepted again and give the same statements"""
    p = ctx.p
    C.reset()
    text = p["text"]
    i, a, b = p["spot"]
    ch = text[i]
    dom = "digit" if ch.isdigit() else ("upper" if ch.isupper() else "lower")
    others = text[a:i] + text[i + 1:b]
    if dom == "digit" and others == "0" * len(others):
        dom = "digit1"
    c = ctx.chars("c", 1, dom)
    word = (text[a:i] + c + text[i + 1:b]).lower()
    for kw in G.bad_names(b - a):
        G.require(ctx, word != kw)
    stmt = text[:i] + c + text[i + 1:]
    src = "subroutine s\n  " + stmt + "\nend subroutine s\n"
    ctx.observe("src", src)
    r1 = C.outcome(lambda: _parse1(src, "free", p["analyze"]))
    ctx.check(r1[0] == "ok", "statement of fparser1's tests rejected by fparser1 (" + r1[0] + ")")
    if r1[0] != "ok":
        return
    s1 = str(r1[1])
    b1 = body(s1)
    ctx.observe("b1", b1)
    r2 = C.outcome(lambda: _parse1(s1, "free", p["analyze"]))
    ctx.check(r2[0] == "ok", "fparser1 rejects its own output (" + r2[0] + ")")
    if r2[0] != "ok":
        return
    b2 = body(str(r2[1]))
    ok_len = len(b1) == len(b2)
    ctx.check(ok_len, "second round trip has %s statements" % ("more" if len(b2) > len(b1) else "fewer"))
    if ok_len:
        ctx.check(api.conj([(x == y) if len(x) == len(y) else False for x, y in zip(b1, b2)]), "second round trip changes the statements")
    ctx.check(_structure(r1[1]) == _structure(r2[1]), "block structure changes on re-parsing")
