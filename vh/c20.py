"""C20 parsing effort stays polynomial.  The observable is the number of Base.__new__ activations
(rule-matching attempts) of one parse.  For every family f of the catalogue and sizes n, 2n:
attempts(f(2n)) <= 4 * attempts(f(n)) + 300 (degree <= 2 per doubling), and attempts(f(n)) stays
under an absolute budget.  The labels of the two outermost labelled loops and one name are
symbolic, so every equality pattern between those labels (valid program or not) is explored."""
from sse import api
from vh import common as C
from vh import gen as G
from fparser.two import utils as U
from fparser.common.readfortran import FortranStringReader

_CNT = [0, None, 10 ** 9]


class _TooMany(BaseException):
    pass


def _install_counter():
    if _CNT[1] is None:
        orig = U.Base.__new__

        def counting(cls, *a, **k):
            _CNT[0] += 1
            if _CNT[0] > _CNT[2]:
                raise _TooMany()
            return orig(cls, *a, **k)
        U.Base.__new__ = counting
        _CNT[1] = orig


def wrap(body):
    return "program p\n" + body + "end program p\n"


def nest(open_, close, n, inner="x = 1\n"):
    return wrap("".join([open_(i) for i in range(n)]) + inner + "".join([close(i) for i in reversed(range(n))]))


def lab(L, i):
    return L[i] if i < len(L) else str(100 + i)


FAMILIES = {
    "paren": lambda n, L, v: wrap(v + " = " + "(" * n + "a" + ")" * n + "\n"),
    "if": lambda n, L, v: nest(lambda i: "if (a > %d) then\n" % i, lambda i: "end if\n", n, v + " = 1\n"),
    "do": lambda n, L, v: nest(lambda i: "do i%d = 1, 2\n" % i, lambda i: "end do\n", n, v + " = 1\n"),
    "do_label": lambda n, L, v: nest(lambda i: "do " + lab(L, i) + " i%d = 1, 2\n" % i, lambda i: lab(L, i) + " continue\n", n, v + " = 1\n"),
    "do_shared": lambda n, L, v: wrap("".join(["do " + lab(L, 0) + " i%d = 1, 2\n" % i for i in range(n)]) + v + " = 1\n" + lab(L, 0) + " continue\n"),
    "select": lambda n, L, v: nest(lambda i: "select case (a%d)\ncase (1)\n" % i, lambda i: "end select\n", n, v + " = 1\n"),
    "repeat_stmt": lambda n, L, v: wrap((v + " = a + b * c\n") * n),
    "repeat_loop": lambda n, L, v: wrap(("do i = 1, 2\n" + v + " = 1\nend do\n") * n),
    "repeat_nonblock": lambda n, L, v: wrap("".join(["do " + lab(L, i) + " i = 1, 2\n" + lab(L, i) + " " + v + " = 1\n" for i in range(n)])),
    "repeat_nonblock_comments": lambda n, L, v: wrap("".join(["! loop %d\ndo " % i + lab(L, i) + " i = 1, 2\n" + lab(L, i) + " " + v + " = 1\n" for i in range(n)])),
    # the DO statement spells its label with a leading zero (not significant in a label)
    "repeat_nonblock_lead0": lambda n, L, v: wrap("".join(["do 0" + lab(L, i) + " i = 1, 2\n" + lab(L, i) + " " + v + " = 1\n" for i in range(n)])),
    "do_label_lead0": lambda n, L, v: wrap("".join(["do 0" + lab(L, i) + " i = 1, 2\n" + v + " = 1\n0" + lab(L, i) + " continue\n" for i in range(n)])),
    "if_comments": lambda n, L, v: nest(lambda i: "! level %d\nif (a > %d) then\n" % (i, i), lambda i: "end if ! %d\n" % i, n, v + " = 1\n"),
    "not_nest": lambda n, L, v: wrap(v + " = " + "b .and. .not. (" * n + "a" + ")" * n + "\n"),
    "arith_nest": lambda n, L, v: wrap(v + " = " + "a + (b * " * n + "c" + ")" * n + "\n"),
    "power_nest": lambda n, L, v: wrap(v + " = " + "a ** (-b ** " * n + "c" + ")" * n + "\n"),
    "concat_nest": lambda n, L, v: wrap(v + " = " + "'s' // (t // " * n + "u" + ")" * n + "\n"),
    "arrcons_nest": lambda n, L, v: wrap(v + " = " + "(/ 1, " * n + "2" + " /)" * n + "\n"),
    "rel_nest": lambda n, L, v: wrap(v + " = " + "a == (b /= " * n + "c" + ")" * n + "\n"),
    "expr_chain": lambda n, L, v: wrap(v + " = " + " + ".join(["a%d" % i for i in range(n + 1)]) + "\n"),
    "do_nonblock": lambda n, L, v: nest(lambda i: "do " + lab(L, i) + " i%d = 1, 2\n" % i, lambda i: lab(L, i) + " x%d = 1\n" % i, n, v + " = 1\n"),
    "call_nest": lambda n, L, v: wrap(v + " = " + "f(" * n + "1" + ")" * n + "\n"),
}
KNOWN_EXP = ("do_nonblock", "call_nest")


def units(tier):
    q = tier == "quick"
    us = []
    for fam in FAMILIES:
        sizes = (1, 2, 4, 8) if q else (1, 2, 4, 8, 16)
        if fam in KNOWN_EXP:
            sizes = (1, 2, 4)
        elif fam.endswith("_nest"):
            sizes = (1, 2, 4, 8)      # deeper expression nests hit Python's recursion limit natively (see C06 finding)
        for n in sizes:
            for std in ("f2003", "f2008"):
                us.append(dict(h="grow", fam=fam, n=n, std=std, sym=("labels" if fam in ("do_label", "do_shared", "repeat_nonblock", "repeat_nonblock_comments", "do_nonblock", "repeat_nonblock_lead0", "do_label_lead0") else "name"), cost=n))
    return us


def meta(tier):
    q = tier == "quick"
    return dict(bounds=dict(families=list(FAMILIES), sizes="n in {1,2,4} vs 2n" if q else "n in {1,2,4,8,16} vs 2n", ratio="attempts(2n) <= 4*attempts(n) + 300",
                            absolute_budget="attempts(f(n)) <= 400 + 600*n^2",
                            symbolic="labels of the two outermost labelled loops (2 digits each, any value) or the assigned name (2 characters)"),
                assumptions=["growth in n is observed at the enumerated sizes only; the solver adds 'for every label/name assignment at those sizes'",
                             "counter = wrapper around fparser.two.utils.Base.__new__ installed by the harness"],
                budget_s=400 if q else 1500, unit_budget_s=120 if q else 900, witness_every=5)


def _attempts(src, std, cap):
    C.reset()
    p = C.get_parser(std)
    _CNT[0] = 0
    _CNT[2] = cap
    try:
        r = C.outcome(lambda: p(FortranStringReader(src, ignore_comments=("!" not in src))))
    except _TooMany:
        r = ("cut off at %d attempts" % cap,)
    finally:
        _CNT[2] = 10 ** 9
    return _CNT[0], r[0]


def grow(ctx):
    p = ctx.p
    _install_counter()
    n = p["n"]
    if p["sym"] == "labels":
        L = [ctx.digits("L0", 2, nonzero_first=True), ctx.digits("L1", 2, nonzero_first=True)]
        v = "x"
    else:
        L = []
        v = G.fresh_name(ctx, "v", 2)
    f = FAMILIES[p["fam"]]
    cap = 20 * (400 + 600 * 4 * n * n)
    c1, o1 = _attempts(f(n, L, v), p["std"], cap)
    c2, o2 = _attempts(f(2 * n, L, v), p["std"], cap)
    ctx.observe("counts", [c1, c2, o1, o2])
    tag = " [%s]" % p["fam"]
    ctx.check(c2 <= 4 * c1 + 300, "rule-matching attempts grow faster than quadratically when the size doubles" + tag)
    ctx.check(c1 <= 400 + 600 * n * n, "rule-matching attempts exceed the polynomial budget" + tag)
