"""Catalogue T: the generated valid class.  Templates are statement / construct texts with holes

    {n1}..{n9}  Fortran names          {d1}..{d9}  digit strings (integer literals)
    {L1}..{L9}  statement labels        {s1}..{s9}  character-literal bodies (quote doubled by construction)
    {S}         a nested body (list of executable statements)

The same hole tag used twice means the same lexeme (construct names, labels).  A unit chooses
which holes are symbolic (the others take the defaults below) and how long they are.
Flags: f08 = Fortran-2008 only; fix = may be rendered in fixed form; one = in the fparser1 subset.
"""

DEFAULTS = dict(n1="a", n2="b2", n3="c_3", n4="dd", n5="e5", n6="fr", n7="g7", n8="pg", n9="nm",
                d1="1", d2="20", d3="3", d4="4", L1="10", L2="20", L3="30", L4="40", L5="50", L6="60", L7="70", L8="80", L9="90",
                n9a="nma", n9b="nmb", o1="myop", s1="xy", s2="it", s3="q")


def retag(text, depth):
    """rename label and construct-name holes of a template nested at `depth` so that nested
    constructs never share labels / construct names"""
    if depth == 0:
        return text
    for k in (1, 2, 3):
        text = text.replace("{L%d}" % k, "{L%d}" % (k + 3 * depth))
    return text.replace("{n9}", "{n9%s}" % ("a" if depth == 1 else "b"))

# ---- specification statements (kind "spec")
SPEC = [
    ("int_decl", "integer :: {n1}", "fix one"),
    ("int_param", "integer, parameter :: {n1} = {d1}", "fix one"),
    ("real_kind", "real(kind={d1}) :: {n1}, {n2}", "fix one"),
    ("real_star", "real*8 :: {n1}", "fix"),
    ("char_len", "character(len={d1}) :: {n1} = '{s1}'", "fix"),
    ("char_star", "character(len=*), parameter :: {n1} = \"{s1}\"", ""),
    ("int_param_public", "integer, parameter, public :: {n1} = {d1}", "one mod"),
    ("real_private", "real, private :: {n1}({d1})", "one mod"),
    ("real_kind_call", "real(kind(1.0d0)) :: {n1}", "fix one"),
    ("int_kind_sel", "integer(selected_int_kind({d1})) :: {n1}", "fix one"),
    ("int_many", "integer :: {n1}, {n2}, {n3}, {n4}, {n5}, {n6}, {n7}({d1}), i8, i9, i10 = {d1}, i11({d1})", "fix"),
    ("entity_arr_init", "integer :: {n1}({n2} + 1) = {d1}, {n3}(1:{d2}) = {d3}", "fix"),
    ("char_entity_len", "character :: {n1}({n2} - 1)*{d1}, {n3}*({d2})", "fix"),
    ("real_kindname", "real(kind) :: {n1}", "fix"),
    ("char_kind_len", "character(len = {d1}, kind = {n1}) :: {n2}", "fix"),
    ("int_dim", "integer, dimension({d1}) :: {n1}", "fix one"),
    ("real_alloc", "real, allocatable :: {n1}(:, :)", "one"),
    ("type_decl", "type({n1}) :: {n2}", "fix"),
    ("class_decl", "class({n1}), pointer :: {n2}", ""),
    ("logical_init", "logical :: {n1} = .true.", "fix"),
    ("complex_init", "complex :: {n1} = ({d1}.0, {d2}.5)", "fix"),
    ("double", "double precision :: {n1}", "fix"),
    ("implicit_none", "implicit none", "fix one"),
    ("implicit_real", "implicit real (a-h, o-z)", "fix"),
    ("use_plain", "use {n1}", "fix one"),
    ("use_only", "use {n1}, only: {n2}", "fix one"),
    ("use_rename", "use {n1}, {n2} => {n3}", ""),
    ("use_intrinsic", "use, intrinsic :: iso_c_binding", ""),
    ("parameter_stmt", "parameter ({n1} = {d1})", "fix one"),
    ("dimension_stmt", "dimension {n1}({d1})", "fix one"),
    ("save_stmt", "save {n1}", "fix one"),
    ("common_stmt", "common /{n1}/ {n2}, {n3}", "fix one"),
    ("equivalence", "equivalence ({n1}, {n2})", "fix one"),
    ("data_stmt", "data {n1} /{d1}/", "fix one"),
    ("external", "external {n1}", "fix one"),
    ("intrinsic", "intrinsic sin", "fix one"),
    ("namelist", "namelist /{n1}/ {n2}", "fix"),
    ("target", "integer, target :: {n1}", ""),
    ("pointer", "real, pointer :: {n1}", ""),
    ("volatile", "volatile :: {n1}", ""),
    ("asynchronous", "asynchronous :: {n1}", ""),
    ("optional", "optional :: {n1}", ""),
    ("intent", "integer, intent(in) :: {n1}", ""),
    ("procedure_decl", "procedure({n1}), pointer :: {n2}", ""),
    ("bind_c", "integer, bind(c, name='{s1}') :: {n1}", ""),
    ("format", "{L1} format (1x, a, i{d1})", "fix one"),
    ("format_str", "{L1} format ('{s1}', f{d1}.2)", "fix"),
    ("derived_type", "type {n1}\n  integer :: {n2}\nend type {n1}", ""),
    ("derived_type_ext", "type, extends({n1}) :: {n2}\n  real :: {n3}\nend type {n2}", ""),
    ("derived_type_proc", "type :: {n1}\n  integer :: {n2}\n  contains\n  procedure :: {n3}\nend type {n1}", ""),
    ("derived_type_seq", "type {n1}\n  sequence\n  real :: {n2}({d1})\nend type", ""),
    ("interface_generic", "interface {n1}\n  module procedure {n2}\nend interface {n1}", ""),
    ("interface_body", "interface\n  subroutine {n1}({n2})\n    real :: {n2}\n  end subroutine {n1}\nend interface", ""),
    ("interface_op", "interface operator (.{o1}.)\n  module procedure {n2}\nend interface", ""),
    ("enum", "enum, bind(c)\n  enumerator :: {n1} = {d1}\nend enum", ""),
    ("derived_type_contig", "type {n1}\n  real, pointer, contiguous :: {n2}(:)\nend type {n1}", "f08"),
    ("contiguous", "real, contiguous, pointer :: {n1}(:)", "f08"),
    ("codimension", "real, codimension[*] :: {n1}", "f08"),
]

# ---- executable statements (kind "exec")
EXEC = [
    ("assign", "{n1} = {n2} + {d1}", "fix one"),
    ("assign_arr", "{n1}({d1}) = {n2}({n3}) * 2", "fix one"),
    ("assign_comp", "{n1}%{n2} = {d1}", ""),
    ("assign_str", "{n1} = '{s1}' // {n2}", "fix one"),
    ("assign_dq", "{n1} = \"{s1}\"", "fix"),
    ("assign_real", "{n1} = {d1}.{d2}e-{d3} * {n2}", "fix one"),
    ("assign_logic_paren", "{n1} = ({n2} .and. .true.) .or. {n3}({d1}, .false.)", "fix"),
    ("assign_logic", "{n1} = {n2} .and. .not. {n3}", "fix one"),
    ("assign_rel", "{n1} = {n2} >= {d1} .or. {n3} /= {d2}", "fix"),
    ("assign_pow", "{n1} = -{n2} ** {d1} ** {n3}", "fix one"),
    ("assign_paren", "{n1} = ({n2} + {d1}) * ({n3} - {n1})", "fix one"),
    ("assign_call", "{n1} = {n2}({n3}, {d1}) + {n4}({n5}({d2}))", "fix one"),
    ("assign_section", "{n1}(1:{d1}, :) = {n2}(::{d2}, {n3})", "one"),
    ("assign_stride_expr", "{n1}({d1}:{n2}:{n3}({n4} + 1)) = {n2}(::({n3} * {d2}))", ""),
    ("assign_substr", "{n1}({d1}:{n2}) = {n3}({n4})(:{d2}) // {n5}%{n6}(2:)", ""),
    ("assign_arrcons", "{n1} = (/ {d1}, {d2}, {n2} /)", "fix"),
    ("assign_arrcons_long", "{n1} = (/ {d1}, {d2}, {n2}, {d1}, {n2}, {d3}, 7, {n3}, 9, {n2} + 1, {n3} /)", "fix"),
    ("call_long", "call {n1}({n2}, {n3}, {n2}, {d1}, {d1}, {n4}, {n2}, 8, {n4}, {n3}({n2}), {n2})", "fix"),
    ("assign_same_real", "{n1} = 2.0e-3 * ({d1}.0e-3 * {n2} + {d1}.0e-3 * {n3}) + ({d2}.5e-3, {d2}.5e-3)", "fix"),
    ("assign_same_str", "{n1} = '{s1}' // {n2}('{s1}', ({n3} + 1) * ({n3} + 1)) // '{s1}'", "fix"),
    ("assign_kind", "{n1} = {d1}_{n2} + 1.0_{d2}", "fix"),
    ("ptr_assign", "{n1} => {n2}", "one"),
    ("nullify", "nullify({n1})", "one"),
    ("call_args", "call {n1}({n2}, {d1})", "fix one"),
    ("call_plain", "call {n1}", "fix one"),
    ("call_kw", "call {n1}({n2} = {d1})", "fix"),
    ("call_comp", "call {n1}%{n2}({n3})", ""),
    ("if_stmt", "if ({n1} > {d1}) {n2} = {d2}", "fix one"),
    ("print_star", "print *, {n1}, '{s1}'", "fix one"),
    ("print_fmt", "print '({s1})', {n1}", "fix"),
    ("write_star", "write(*, *) {n1}", "fix one"),
    ("write_unit", "write({d1}, *) {n1}, {n2}", "fix one"),
    ("write_fmtstr", "write(*, '(a, i{d1})') '{s1}', {n1}", "fix"),
    ("write_kw", "write(unit = {d1}, fmt = *) {n1}", "fix"),
    ("read_star", "read(*, *) {n1}", "fix one"),
    ("read_iostat", "read({d1}, *, iostat = {n1}) {n2}", "fix"),
    ("open_stmt", "open(unit = {d1}, file = '{s1}', status = 'old')", "fix one"),
    ("close_stmt", "close(unit = {d1})", "fix one"),
    ("inquire", "inquire(unit = {d1}, exist = {n1})", "fix"),
    ("rewind", "rewind {d1}", "fix"),
    ("backspace", "backspace(unit = {d1})", "fix"),
    ("endfile", "endfile {d1}", "fix"),
    ("flush", "flush(unit = {d1})", ""),
    ("allocate", "allocate({n1}({d1}))", "one"),
    ("allocate_stat", "allocate({n1}({d1}, {d2}), stat = {n2})", "one"),
    ("deallocate", "deallocate({n1})", "one"),
    ("goto", "goto {L1}\n{L1} continue", "fix one"),
    ("computed_goto", "go to ({L1}, {L2}), {n1}\n{L1} continue\n{L2} continue", "fix"),
    ("arith_if", "if ({n1}) {L1}, {L2}, {L1}\n{L1} continue\n{L2} continue", "fix"),
    ("stop_plain", "stop", "fix one"),
    ("stop_code", "stop {d1}", "fix one"),
    ("stop_str", "stop '{s1}'", "fix"),
    ("continue", "continue", "fix one"),
    ("labelled", "{L1} {n1} = {d1}", "fix one"),
    ("where_stmt", "where ({n1} > 0) {n1} = 0", "one"),
    ("forall_stmt", "forall ({n1} = 1:{d1}) {n2}({n1}) = 0", ""),
    ("error_stop", "error stop {d1}", "f08"),
    ("allocate_mold", "allocate({n1}, mold = {n2})", "f08"),
    ("open_newunit", "open(newunit = {n1}, file = '{s1}')", "f08"),
]

# ---- constructs (kind "cons"); {S} is a nested body
CONS = [
    ("if_then", "if ({n1} > {d1}) then\n{S}\nend if", "fix one"),
    ("if_else", "if ({n1} > {d1}) then\n{S}\nelse if ({n1} < {d2}) then\n{S}\nelse\n{S}\nend if", "fix one"),
    ("if_named", "{n9}: if ({n1} == {d1}) then\n{S}\nelse {n9}\n{S}\nend if {n9}", ""),
    ("do_count", "do {n1} = 1, {d1}\n{S}\nend do", "fix one"),
    ("do_step", "do {n1} = {d1}, {n2}, -{d2}\n{S}\nenddo", "fix one"),
    ("do_named", "{n9}: do {n1} = 1, {d1}\n{S}\nif ({n1} > 2) exit {n9}\ncycle {n9}\nend do {n9}", ""),
    ("do_named_label", "{L1} {n9}: do {n1} = 1, {d1}\n{S}\nend do {n9}", ""),
    ("if_named_label", "{L1} {n9}: if ({n1} > {d1}) then\n{S}\nend if {n9}", ""),
    ("do_while", "do while ({n1} < {d1})\n{S}\nend do", "fix one"),
    ("do_forever", "do\n{S}\nexit\nend do", "one"),
    ("do_label", "do {L1} {n1} = 1, {d1}\n{S}\n{L1} continue", "fix one"),
    ("do_label_action", "do {L1} {n1} = 1, {d1}\n{S}\n{L1} {n2} = {n1}", "fix"),
    ("do_label_ifstmt", "do {L1} {n1} = 1, {d1}\n{S}\n{L1} if ({n2} > {d2}) {n2} = {d2}", "fix"),
    ("do_var_concurrent", "do concurrent = 1, {d1}\n{S}\nend do", "fix"),
    ("do_var_concurrent_label", "do {L1}, concurrent_{n1} = 1, {d1}, 2\n{S}\n{L1} continue", "fix"),
    ("do_shared", "do {L1} {n1} = 1, {d1}\ndo {L1} {n2} = 1, {d2}\n{S}\n{L1} continue", "fix"),
    ("do_label_enddo", "do {L1} {n1} = 1, {d1}\n{S}\n{L1} end do", "fix"),
    ("select_case", "select case ({n1})\ncase ({d1})\n{S}\ncase ({d2}:{d3})\n{S}\ncase default\n{S}\nend select", "fix one"),
    ("select_case_str", "select case ({n1})\ncase ('{s1}')\n{S}\ncase default\nend select", "fix"),
    ("select_named", "{n9}: select case ({n1})\ncase ({d1}) {n9}\n{S}\nend select {n9}", ""),
    ("select_type", "select type ({n1})\ntype is (integer)\n{S}\nclass is ({n2})\n{S}\nclass default\n{S}\nend select", ""),
    ("where_cons", "where ({n1} > 0)\n{n1} = 1\nelsewhere ({n1} < 0)\n{n1} = 2\nelsewhere\n{n1} = 0\nend where", "one"),
    ("forall_cons", "forall ({n1} = 1:{d1}, {n2} = 1:{d2})\n{n3}({n1}, {n2}) = 0\nend forall", ""),
    ("associate", "associate ({n1} => {n2} + {d1})\n{S}\nend associate", ""),
    ("block", "block\ninteger :: {n1}\n{S}\nend block", "f08"),
    ("block_named", "{n9}: block\n{S}\nend block {n9}", "f08"),
    ("critical", "critical\n{S}\nend critical", "f08"),
    ("do_concurrent", "do concurrent ({n1} = 1:{d1})\n{S}\nend do", "f08"),
]

# ---- program-unit contexts; {SPEC} and {EXEC} are statement lists
UNITS = [
    ("program", "program {n8}\n{SPEC}\n{EXEC}\nend program {n8}", "fix one"),
    ("program_anon", "{SPEC}\n{EXEC}\nend", "fix"),
    ("subroutine", "subroutine {n8}({n7})\n{SPEC}\n{EXEC}\nend subroutine {n8}", "fix one"),
    ("subroutine_bindc", "subroutine {n8}({n7}) bind(c, name='{s1}')\n{SPEC}\n{EXEC}\nend subroutine {n8}", ""),
    ("function", "function {n8}({n7}) result({n6})\n{SPEC}\n{EXEC}\nend function {n8}", "one"),
    ("function_typed", "integer function {n8}({n7})\n{SPEC}\n{EXEC}\n{n8} = 1\nend function", "fix one"),
    ("module", "module {n8}\n{SPEC}\ncontains\nsubroutine {n7}()\n{EXEC}\nend subroutine {n7}\nend module {n8}", "one"),
    ("module_spec", "module {n8}\n{SPEC}\nend module {n8}", "one"),
    ("program_contains", "program {n8}\n{SPEC}\n{EXEC}\ncontains\nfunction {n7}()\n{n7} = 1\nend function {n7}\nend program {n8}", ""),
    ("two_units", "subroutine {n7}\nend subroutine {n7}\nprogram {n8}\n{SPEC}\n{EXEC}\nend program {n8}", "fix one"),
    ("block_data", "block data {n8}\n{SPEC}\nend block data {n8}", "fix"),
    ("submodule", "submodule ({n6}) {n8}\n{SPEC}\ncontains\nsubroutine {n7}()\n{EXEC}\nend subroutine {n7}\nend submodule {n8}", "f08"),
]


def flags(entry):
    return set(entry[2].split())


def by_name(table, name):
    for e in table:
        if e[0] == name:
            return e
    raise KeyError(name)


def holes_of(text):
    """hole tags in order of first occurrence"""
    out = []
    i = 0
    while True:
        i = text.find("{", i)
        if i < 0:
            return out
        j = text.find("}", i)
        tag = text[i + 1:j]
        if tag not in ("S", "SPEC", "EXEC") and tag not in out:
            out.append(tag)
        i = j + 1


def fill(text, values, bodies=None):
    """substitute holes (values: tag -> string, possibly symbolic) and bodies ('S'/'SPEC'/'EXEC' -> text)"""
    out = []
    i = 0
    n = len(text)
    while i < n:
        j = text.find("{", i)
        if j < 0:
            out.append(text[i:])
            break
        out.append(text[i:j])
        k = text.find("}", j)
        tag = text[j + 1:k]
        if bodies is not None and tag in bodies:
            out.append(bodies[tag])
        elif tag in values:
            out.append(values[tag])
        else:
            out.append(DEFAULTS[tag])
        i = k + 1
    return "".join(out)


def indent_lines(text, pad):
    return "\n".join([(pad + l if l else l) for l in text.split("\n")])
