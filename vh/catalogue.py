"""Catalogue T: the generated valid class.  Templates are statement / construct texts with holes

    {n1}..{n9}  Fortran names          {d1}..{d9}  digit strings (integer literals)
    {L1}..{L9}  statement labels        {s1}..{s9}  character-literal bodies (quote doubled by construction)
    {S}         a nested body (list of executable statements)

The same hole tag used twice means the same lexeme (construct names, labels).  A unit chooses
which holes are symbolic (the others take the defaults below) and how long they are.
Flags: f08 = Fortran-2008 only; fix = may be rendered in fixed form; one = in the fparser1 subset;
mod = only in a module specification part; x = extended set (see below).
"""

DEFAULTS = dict(n1="a", n2="b2", n3="c_3", n4="dd", n5="e5", n6="fr", n7="g7", n8="pg", n9="nm",
                d1="1", d2="20", d3="3", d4="4", L1="10", L2="20", L3="30", L4="40", L5="50", L6="60", L7="70", L8="80", L9="90",
                n9a="nma", n9b="nmb", o1="myop", s1="xy", s2="it", s3="q")


def retag(text, depth):
    """rename label and construct-name holes of a template nested at `depth` so that nested
    constructs never share labels / construct names"""
    if depth == 0:
        return text
    for k in (1, 2, 3):
        text = text.replace("{L%d}" % k, "{L%d}" % (k + 3 * depth))
    return text.replace("{n9}", "{n9%s}" % ("a" if depth == 1 else "b"))

# ---- specification statements (kind "spec")
SPEC = [
    ("int_decl", "integer :: {n1}", "fix one"),
    ("int_param", "integer, parameter :: {n1} = {d1}", "fix one"),
    ("real_kind", "real(kind={d1}) :: {n1}, {n2}", "fix one"),
    ("real_star", "real*8 :: {n1}", "fix"),
    ("char_len", "character(len={d1}) :: {n1} = '{s1}'", "fix"),
    ("char_star", "character(len=*), parameter :: {n1} = \"{s1}\"", ""),
    ("int_param_public", "integer, parameter, public :: {n1} = {d1}", "one mod"),
    ("real_private", "real, private :: {n1}({d1})", "one mod"),
    ("real_kind_call", "real(kind(1.0d0)) :: {n1}", "fix one"),
    ("int_kind_sel", "integer(selected_int_kind({d1})) :: {n1}", "fix one"),
    ("int_many", "integer :: {n1}, {n2}, {n3}, {n4}, {n5}, {n6}, {n7}({d1}), i8, i9, i10 = {d1}, i11({d1})", "fix"),
    ("entity_arr_init", "integer :: {n1}({n2} + 1) = {d1}, {n3}(1:{d2}) = {d3}", "fix"),
    ("char_entity_len", "character :: {n1}({n2} - 1)*{d1}, {n3}*({d2})", "fix"),
    ("real_kindname", "real(kind) :: {n1}", "fix"),
    ("char_kind_len", "character(len = {d1}, kind = {n1}) :: {n2}", "fix"),
    ("int_dim", "integer, dimension({d1}) :: {n1}", "fix one"),
    ("real_alloc", "real, allocatable :: {n1}(:, :)", "one"),
    ("type_decl", "type({n1}) :: {n2}", "fix"),
    ("class_decl", "class({n1}), pointer :: {n2}", ""),
    ("logical_init", "logical :: {n1} = .true.", "fix"),
    ("complex_init", "complex :: {n1} = ({d1}.0, {d2}.5)", "fix"),
    ("double", "double precision :: {n1}", "fix"),
    ("implicit_none", "implicit none", "fix one"),
    ("implicit_real", "implicit real (a-h, o-z)", "fix"),
    ("use_plain", "use {n1}", "fix one"),
    ("use_only", "use {n1}, only: {n2}", "fix one"),
    ("use_rename", "use {n1}, {n2} => {n3}", ""),
    ("use_intrinsic", "use, intrinsic :: iso_c_binding", ""),
    ("parameter_stmt", "parameter ({n1} = {d1})", "fix one"),
    ("dimension_stmt", "dimension {n1}({d1})", "fix one"),
    ("save_stmt", "save {n1}", "fix one"),
    ("common_stmt", "common /{n1}/ {n2}, {n3}", "fix one"),
    ("equivalence", "equivalence ({n1}, {n2})", "fix one"),
    ("data_stmt", "data {n1} /{d1}/", "fix one"),
    ("external", "external {n1}", "fix one"),
    ("intrinsic", "intrinsic sin", "fix one"),
    ("namelist", "namelist /{n1}/ {n2}", "fix"),
    ("target", "integer, target :: {n1}", ""),
    ("pointer", "real, pointer :: {n1}", ""),
    ("volatile", "volatile :: {n1}", ""),
    ("asynchronous", "asynchronous :: {n1}", ""),
    ("optional", "optional :: {n1}", ""),
    ("intent", "integer, intent(in) :: {n1}", ""),
    ("procedure_decl", "procedure({n1}), pointer :: {n2}", ""),
    ("bind_c", "integer, bind(c, name='{s1}') :: {n1}", ""),
    ("bind_c_plain", "integer, bind(c) :: {n1}", "x"),
    ("format", "{L1} format (1x, a, i{d1})", "fix one"),
    ("format_str", "{L1} format ('{s1}', f{d1}.2)", "fix"),
    ("derived_type", "type {n1}\n  integer :: {n2}\nend type {n1}", ""),
    ("derived_type_ext", "type, extends({n1}) :: {n2}\n  real :: {n3}\nend type {n2}", ""),
    ("derived_type_proc", "type :: {n1}\n  integer :: {n2}\n  contains\n  procedure :: {n3}\nend type {n1}", ""),
    ("derived_type_seq", "type {n1}\n  sequence\n  real :: {n2}({d1})\nend type", ""),
    ("interface_generic", "interface {n1}\n  module procedure {n2}\nend interface {n1}", ""),
    ("interface_body", "interface\n  subroutine {n1}({n2})\n    real :: {n2}\n  end subroutine {n1}\nend interface", ""),
    ("interface_op", "interface operator (.{o1}.)\n  module procedure {n2}\nend interface", ""),
    ("enum", "enum, bind(c)\n  enumerator :: {n1} = {d1}\nend enum", ""),
    ("derived_type_contig", "type {n1}\n  real, pointer, contiguous :: {n2}(:)\nend type {n1}", "f08"),
    ("contiguous", "real, contiguous, pointer :: {n1}(:)", "f08"),
    ("codimension", "real, codimension[*] :: {n1}", "f08"),
    # ---- added after a coverage audit of the rule classes' match()/tostr() (tools/covaudit.py) and the
    # round-3 seeded changes; flag x = extended (quick tier: fewer rotations, no depth-2 nesting)
    ("use_colons", "use :: {n1}", "x"),
    ("cray_pointer", "pointer ({n1}, {n2}), ({n3}, {n4}({d1}))", "fix x"),
    ("format_hollerith", "{L1} format (3habc, i{d1}, 1h,, 2x)", "fix x"),
    ("codimension_lower", "real, codimension[{d1}, 0:*] :: {n1}", "f08 x"),
    ("bind_stmt", "bind(c, name='{s1}') :: {n1}", "x"),
    ("bind_stmt_nocolons", "bind(c) {n1}, /{n2}/", "x"),
    ("data_implied", "data ({n1}({n2}), {n2} = 1, {d1}, 2) /{d2}*0/", "fix x one"),
    ("data_two", "data {n1}, {n2} /{d1}, {d2}/, {n3} /{d3}*1.0/", "fix x"),
    ("common_blank", "common // {n1}, {n2}({d1})", "fix x"),
    ("common_two", "common /{n1}/ {n2} /{n3}/ {n4}, {n5}", "fix x one"),
    ("dimension_two", "dimension {n1}({d1}), {n2}(0:{d2}, {d3})", "fix x one"),
    ("implicit_two", "implicit integer (i-k), real*8 (z)", "fix x one"),
    ("namelist_two", "namelist /{n1}/ {n2}, {n3} /{n4}/ {n5}", "fix x"),
    ("equivalence_two", "equivalence ({n1}, {n2}({d1})), ({n3}, {n4})", "fix x one"),
    ("char_sel_both", "character({d1}, {n1}) :: {n2}", "fix x"),
    ("char_old_len", "character*{d1} {n1}, {n2}*{d2}", "fix x"),
    ("char_assumed", "character*(*) {n1}", "fix x"),
    ("use_only_rename", "use {n1}, only: {n2} => {n3}, operator(.{o1}.), {n4}", "x"),
    ("use_nonintrinsic", "use, non_intrinsic :: {n1}", "x"),
    ("use_only_empty", "use {n1}, only:", "x one"),
    ("use_rename_op", "use {n1}, operator(.{o1}.) => operator(.plus.)", "x"),
    ("derived_type_param", "type {n1}({n2})\n  integer, kind :: {n2} = {d1}\n  real({n2}) :: {n3}\nend type {n1}", "x"),
    ("derived_type_abstract", "type, abstract, bind(c) :: {n1}\nend type", "x"),
    ("derived_proc_comp", "type {n1}\n  procedure({n2}), pointer, nopass :: {n3} => null()\nend type {n1}", "x"),
    ("derived_binding", "type {n1}\ncontains\n  procedure, pass({n2}), non_overridable :: {n3} => {n4}\n  generic :: {n5} => {n3}\n  final :: {n6}\nend type", "x"),
    ("derived_comp_init", "type {n1}\n  integer :: {n2} = {d1}\n  real, pointer :: {n3}(:) => null()\n  character(len={d2}) :: {n4}*{d3}\nend type {n1}", "x"),
    ("derived_private", "type {n1}\n  private\n  real, dimension({d1}), public :: {n2}\nend type {n1}", "x"),
    ("proc_decl_init", "procedure({n1}), pointer :: {n2} => null()", "x"),
    ("proc_decl_real", "procedure(real), save, pointer :: {n1}, {n2}", "x"),
    ("enum_multi", "enum, bind(c)\n  enumerator {n1}, {n2} = {d1}\n  enumerator :: {n3}\nend enum", "x"),
    ("interface_abstract", "abstract interface\n  function {n1}({n2}) result({n3})\n    real :: {n2}, {n3}\n  end function {n1}\nend interface", "x"),
    ("interface_assign", "interface assignment (=)\n  module procedure {n1}, {n2}\nend interface assignment (=)", "x"),
    ("interface_dtio", "interface write(formatted)\n  module procedure {n1}\nend interface", "x"),
    ("interface_opsym", "interface operator (+)\n  module procedure {n1}\nend interface operator (+)", "x"),
    ("format_many", "{L1} format (i{d1}, 2x, f{d2}.3, /, 3(a, 1x), e12.4e2, tr{d1}, sp, 'x')", "fix x"),
    ("format_ctrl", "{L1} format (a, :, /, t{d1}, tl2, 1p, bn, ss, es{d2}.3, g10.3, l1, //)", "fix x"),
    ("format_nested", "{L1} format ({d1}(i2, 2(f4.1, '{s1}')), a{d2})", "fix x"),
    ("format_star", "{L1} format (*(i{d1}, :, ','))", "f08 x"),
    ("codimension_explicit", "real, codimension[{d1}, 1:{d2}, *] :: {n1}", "f08 x"),
    ("save_all", "save", "fix x one"),
    ("save_common", "save /{n1}/, {n2}", "fix x one"),
    ("external_many", "external :: {n1}, {n2}", "x one"),
    ("access_stmt", "private :: {n1}, operator(.{o1}.)", "mod x"),
    ("protected", "real, protected :: {n1}", "mod x"),
    ("value_attr", "integer, value :: {n1}", "x"),
    ("import_stmt", "interface\n  subroutine {n1}({n2})\n    import :: {n3}\n    type({n3}) :: {n2}\n  end subroutine {n1}\nend interface", "x"),
    ("stmt_function", "{n1}({n2}) = {n2} + {d1}", "fix x"),
]

# ---- executable statements (kind "exec")
EXEC = [
    ("assign", "{n1} = {n2} + {d1}", "fix one"),
    ("assign_arr", "{n1}({d1}) = {n2}({n3}) * 2", "fix one"),
    ("assign_comp", "{n1}%{n2} = {d1}", ""),
    ("assign_str", "{n1} = '{s1}' // {n2}", "fix one"),
    ("assign_dq", "{n1} = \"{s1}\"", "fix"),
    ("assign_real", "{n1} = {d1}.{d2}e-{d3} * {n2}", "fix one"),
    ("assign_logic_paren", "{n1} = ({n2} .and. .true.) .or. {n3}({d1}, .false.)", "fix"),
    ("assign_logic", "{n1} = {n2} .and. .not. {n3}", "fix one"),
    ("assign_rel", "{n1} = {n2} >= {d1} .or. {n3} /= {d2}", "fix"),
    ("assign_pow", "{n1} = -{n2} ** {d1} ** {n3}", "fix one"),
    ("assign_paren", "{n1} = ({n2} + {d1}) * ({n3} - {n1})", "fix one"),
    ("assign_call", "{n1} = {n2}({n3}, {d1}) + {n4}({n5}({d2}))", "fix one"),
    ("assign_section", "{n1}(1:{d1}, :) = {n2}(::{d2}, {n3})", "one"),
    ("assign_stride_expr", "{n1}({d1}:{n2}:{n3}({n4} + 1)) = {n2}(::({n3} * {d2}))", ""),
    ("assign_substr", "{n1}({d1}:{n2}) = {n3}({n4})(:{d2}) // {n5}%{n6}(2:)", ""),
    ("assign_arrcons", "{n1} = (/ {d1}, {d2}, {n2} /)", "fix"),
    ("assign_arrcons_long", "{n1} = (/ {d1}, {d2}, {n2}, {d1}, {n2}, {d3}, 7, {n3}, 9, {n2} + 1, {n3} /)", "fix"),
    ("call_long", "call {n1}({n2}, {n3}, {n2}, {d1}, {d1}, {n4}, {n2}, 8, {n4}, {n3}({n2}), {n2})", "fix"),
    ("assign_same_real", "{n1} = 2.0e-3 * ({d1}.0e-3 * {n2} + {d1}.0e-3 * {n3}) + ({d2}.5e-3, {d2}.5e-3)", "fix"),
    ("assign_same_str", "{n1} = '{s1}' // {n2}('{s1}', ({n3} + 1) * ({n3} + 1)) // '{s1}'", "fix"),
    ("assign_kind", "{n1} = {d1}_{n2} + 1.0_{d2}", "fix"),
    ("ptr_assign", "{n1} => {n2}", "one"),
    ("nullify", "nullify({n1})", "one"),
    ("call_args", "call {n1}({n2}, {d1})", "fix one"),
    ("call_plain", "call {n1}", "fix one"),
    ("call_kw", "call {n1}({n2} = {d1})", "fix"),
    ("call_comp", "call {n1}%{n2}({n3})", ""),
    ("if_stmt", "if ({n1} > {d1}) {n2} = {d2}", "fix one"),
    ("print_star", "print *, {n1}, '{s1}'", "fix one"),
    ("print_fmt", "print '({s1})', {n1}", "fix"),
    ("write_star", "write(*, *) {n1}", "fix one"),
    ("write_unit", "write({d1}, *) {n1}, {n2}", "fix one"),
    ("write_fmtstr", "write(*, '(a, i{d1})') '{s1}', {n1}", "fix"),
    ("write_kw", "write(unit = {d1}, fmt = *) {n1}", "fix"),
    ("read_star", "read(*, *) {n1}", "fix one"),
    ("read_iostat", "read({d1}, *, iostat = {n1}) {n2}", "fix"),
    ("open_stmt", "open(unit = {d1}, file = '{s1}', status = 'old')", "fix one"),
    ("close_stmt", "close(unit = {d1})", "fix one"),
    ("inquire", "inquire(unit = {d1}, exist = {n1})", "fix"),
    ("rewind", "rewind {d1}", "fix"),
    ("backspace", "backspace(unit = {d1})", "fix"),
    ("endfile", "endfile {d1}", "fix"),
    ("flush", "flush(unit = {d1})", ""),
    ("allocate", "allocate({n1}({d1}))", "one"),
    ("allocate_stat", "allocate({n1}({d1}, {d2}), stat = {n2})", "one"),
    ("deallocate", "deallocate({n1})", "one"),
    ("goto", "goto {L1}\n{L1} continue", "fix one"),
    ("computed_goto", "go to ({L1}, {L2}), {n1}\n{L1} continue\n{L2} continue", "fix"),
    ("arith_if", "if ({n1}) {L1}, {L2}, {L1}\n{L1} continue\n{L2} continue", "fix"),
    ("stop_plain", "stop", "fix one"),
    ("stop_code", "stop {d1}", "fix one"),
    ("stop_str", "stop '{s1}'", "fix"),
    ("continue", "continue", "fix one"),
    ("labelled", "{L1} {n1} = {d1}", "fix one"),
    ("where_stmt", "where ({n1} > 0) {n1} = 0", "one"),
    ("forall_stmt", "forall ({n1} = 1:{d1}) {n2}({n1}) = 0", ""),
    ("error_stop", "error stop {d1}", "f08"),
    ("allocate_mold", "allocate({n1}, mold = {n2})", "f08"),
    ("open_newunit", "open(newunit = {n1}, file = '{s1}')", "f08"),
    # ---- added after a coverage audit of the rule classes' match()/tostr() (tools/covaudit.py) and the
    # round-3 seeded changes; flag x = extended (quick tier: fewer rotations, no depth-2 nesting)
    ("ptr_assign_bounds", "{n1}({d1}:) => {n2}", "x"),
    ("ptr_assign_remap", "{n1}(1:{d1}, 1:{d2}) => {n2}", "x"),
    ("ptr_assign_comp", "{n1}%{n2} => {n3}%{n4}", "x"),
    ("ptr_assign_null", "{n1} => null()", "x one"),
    ("allocate_bounds", "allocate({n1}({d1}:{d2}, 0:{n2}))", "x one"),
    ("allocate_typed", "allocate(real :: {n1}({d1}))", "x"),
    ("allocate_source", "allocate({n1}, source = {n2}, stat = {n3}, errmsg = {n4})", "x"),
    ("allocate_char", "allocate(character(len={d1}) :: {n1})", "x"),
    ("deallocate_stat", "deallocate({n1}, {n2}, stat = {n3})", "x one"),
    ("arrcons_typed", "{n1} = (/ integer :: {d1}, {d2} /)", "x"),
    ("arrcons_implied", "{n1} = (/ ({n2} * 2, {n2} = 1, {d1}) /)", "fix x one"),
    ("arrcons_implied2", "{n1} = (/ (({n2} + {n3}, {n2} = 1, {d1}, 2), {n3} = 1, {d2}) /)", "fix x"),
    ("arrcons_square", "{n1} = [{d1}, {d2}, {n2}]", "x"),
    ("arrcons_empty", "{n1} = [integer ::]", "x"),
    ("print_implied", "print *, ({n1}({n2}), {n2} = 1, {d1})", "fix x one"),
    ("print_implied_rel", "print *, ({n1}({n2}) >= {d2}, {n2} = 1, {d1})", "fix x"),
    ("write_implied_nested", "write(*, *) (({n1}({n2}, {n3}), {n2} = 1, {d1}), {n3} = 1, {d2}, 2)", "fix x"),
    ("read_label", "read {L1}, {n1}\n{L1} format (i{d1})", "fix x"),
    ("read_star_only", "read *, {n1}, {n2}", "fix x one"),
    ("read_many_kw", "read(unit = {d1}, fmt = '(a)', iostat = {n1}, end = {L1}, err = {L2}) {n2}\n{L1} continue\n{L2} continue", "fix x one"),
    ("read_nml", "read({d1}, nml = {n1})", "fix x"),
    ("read_rec", "read({d1}, rec = {n1}) {n2}", "fix x"),
    ("print_label", "print {L1}, {n1}\n{L1} format (i{d1})", "fix x"),
    ("print_only", "print *", "fix x one"),
    ("write_many_kw", "write(unit = {d1}, fmt = '(a)', iostat = {n1}, err = {L1}, advance = 'no') {n2}\n{L1} continue", "fix x one"),
    ("write_label_fmt", "write({d1}, {L1}) {n1}\n{L1} format (i{d2})", "fix x"),
    ("write_internal", "write({n1}, '(i{d1})') {n2}", "fix x one"),
    ("open_reordered", "open(file = '{s1}', unit = {d1}, action = 'read', iostat = {n1})", "fix x one"),
    ("open_positional", "open({d1}, file = '{s1}', form = 'unformatted', access = 'direct', recl = {d2})", "fix x"),
    ("close_many", "close({d1}, status = 'keep', iostat = {n1})", "fix x one"),
    ("inquire_file", "inquire(file = '{s1}', exist = {n1}, opened = {n2})", "fix x one"),
    ("inquire_iolength", "inquire(iolength = {n1}) {n2}, {n3}", "fix x"),
    ("rewind_kw", "rewind(unit = {d1}, iostat = {n1})", "fix x one"),
    ("wait_stmt", "wait(unit = {d1})", "x"),
    ("flush_plain", "flush {d1}", "x"),
    ("backspace_plain", "backspace {d1}", "fix x"),
    ("endfile_kw", "endfile(unit = {d1}, iostat = {n1})", "fix x one"),
    ("forall_mask", "forall ({n1} = 1:{d1}:2, {n2}({n1}) > 0) {n2}({n1}) = 0", "x"),
    ("where_assign_expr", "where ({n1} /= 0 .and. {n2} > {d1}) {n3} = {n2} / {n1}", "x"),
    ("call_altreturn", "call {n1}({n2}, *{L1})\n{L1} continue", "fix x one"),
    ("computed_goto_nocomma", "go to ({L1}) {n1}\n{L1} continue", "fix x one"),
    ("assign_defop_unary", "{n1} = .{o1}. {n2}", "x"),
    ("assign_defop_bin", "{n1} = {n2} .{o1}. {n3} + {d1}", "x"),
    ("assign_concat_rel", "{n1} = {n2} // '{s1}' == {n3}", "fix x"),
    ("assign_eqv", "{n1} = {n2} .eqv. {n3} .neqv. .false.", "fix x one"),
    ("assign_rel_dot", "{n1} = {n2} .lt. {d1} .or. {n3} .ge. {d2}", "fix x one"),
    ("assign_complex", "{n1} = ({d1}.0, -{d2}.0) * {n2}", "fix x one"),
    ("assign_neg_paren", "{n1} = -(-(+({n2} - {d1})))", "fix x one"),
    ("assign_not_paren", "{n1} = .not. (.not. ({n2} .or. {n3}))", "fix x one"),
    ("assign_kw_call", "{n1} = {n2}({n3}, {n4} = {d1})", "x"),
    ("assign_comp_chain", "{n1}%{n2}({d1})%{n3} = {n4}%{n5}", "x"),
    ("assign_char_kind", "{n1} = {n2}_'{s1}'", "x"),
    ("assign_dble", "{n1} = {d1}.{d2}d0 + {d3}.d-2 + .5", "fix x one"),
    ("assign_div_cat", "{n1} = {n2} / {n3} // {n4}", "fix x"),
    ("stop_expr_str", "stop \"{s1}\"", "fix x"),
    ("exit_plain", "do\nexit\nend do", "x"),
    ("error_stop_str", "error stop '{s1}'", "f08 x"),
]

# ---- constructs (kind "cons"); {S} is a nested body
CONS = [
    ("if_then", "if ({n1} > {d1}) then\n{S}\nend if", "fix one"),
    ("if_else", "if ({n1} > {d1}) then\n{S}\nelse if ({n1} < {d2}) then\n{S}\nelse\n{S}\nend if", "fix one"),
    ("if_named", "{n9}: if ({n1} == {d1}) then\n{S}\nelse {n9}\n{S}\nend if {n9}", ""),
    ("do_count", "do {n1} = 1, {d1}\n{S}\nend do", "fix one"),
    ("do_step", "do {n1} = {d1}, {n2}, -{d2}\n{S}\nenddo", "fix one"),
    ("do_named", "{n9}: do {n1} = 1, {d1}\n{S}\nif ({n1} > 2) exit {n9}\ncycle {n9}\nend do {n9}", ""),
    ("do_named_label", "{L1} {n9}: do {n1} = 1, {d1}\n{S}\nend do {n9}", ""),
    ("if_named_label", "{L1} {n9}: if ({n1} > {d1}) then\n{S}\nend if {n9}", ""),
    ("do_while", "do while ({n1} < {d1})\n{S}\nend do", "fix one"),
    ("do_forever", "do\n{S}\nexit\nend do", "one"),
    ("do_label", "do {L1} {n1} = 1, {d1}\n{S}\n{L1} continue", "fix one"),
    ("do_label_action", "do {L1} {n1} = 1, {d1}\n{S}\n{L1} {n2} = {n1}", "fix"),
    ("do_label_ifstmt", "do {L1} {n1} = 1, {d1}\n{S}\n{L1} if ({n2} > {d2}) {n2} = {d2}", "fix"),
    ("do_var_concurrent", "do concurrent = 1, {d1}\n{S}\nend do", "fix"),
    ("do_var_concurrent_label", "do {L1}, concurrent_{n1} = 1, {d1}, 2\n{S}\n{L1} continue", "fix"),
    ("do_shared", "do {L1} {n1} = 1, {d1}\ndo {L1} {n2} = 1, {d2}\n{S}\n{L1} continue", "fix"),
    ("do_label_enddo", "do {L1} {n1} = 1, {d1}\n{S}\n{L1} end do", "fix"),
    ("do_shared_action", "do {L1} {n1} = 1, {d1}\ndo {L1} {n2} = 1, {d2}\n{S}\n{L1} {n3} = {n1} + {n2}", "fix x"),
    ("select_case", "select case ({n1})\ncase ({d1})\n{S}\ncase ({d2}:{d3})\n{S}\ncase default\n{S}\nend select", "fix one"),
    ("select_case_str", "select case ({n1})\ncase ('{s1}')\n{S}\ncase default\nend select", "fix"),
    ("select_named", "{n9}: select case ({n1})\ncase ({d1}) {n9}\n{S}\nend select {n9}", ""),
    ("select_type", "select type ({n1})\ntype is (integer)\n{S}\nclass is ({n2})\n{S}\nclass default\n{S}\nend select", ""),
    ("where_cons", "where ({n1} > 0)\n{n1} = 1\nelsewhere ({n1} < 0)\n{n1} = 2\nelsewhere\n{n1} = 0\nend where", "one"),
    ("forall_cons", "forall ({n1} = 1:{d1}, {n2} = 1:{d2})\n{n3}({n1}, {n2}) = 0\nend forall", ""),
    ("associate", "associate ({n1} => {n2} + {d1})\n{S}\nend associate", ""),
    ("block", "block\ninteger :: {n1}\n{S}\nend block", "f08"),
    ("block_named", "{n9}: block\n{S}\nend block {n9}", "f08"),
    ("critical", "critical\n{S}\nend critical", "f08"),
    ("do_concurrent", "do concurrent ({n1} = 1:{d1})\n{S}\nend do", "f08"),
    # ---- added after a coverage audit of the rule classes' match()/tostr() (tools/covaudit.py) and the
    # round-3 seeded changes; flag x = extended (quick tier: fewer rotations, no depth-2 nesting)
    ("if_named_elseif", "{n9}: if ({n1} == {d1}) then\n{S}\nelse if ({n1} == {d2}) then {n9}\n{S}\nelse {n9}\n{S}\nend if {n9}", "x"),
    ("where_named", "{n9}: where ({n1} > 0)\n{n1} = 1\nelsewhere ({n1} < 0) {n9}\n{n1} = 2\nelsewhere {n9}\n{n1} = 0\nend where {n9}", "x"),
    ("forall_named", "{n9}: forall ({n1} = 1:{d1})\n{n2}({n1}) = 0\nend forall {n9}", "x"),
    ("select_named_default", "{n9}: select case ({n1})\ncase ({d1}, {d2}:) {n9}\n{S}\ncase default {n9}\n{S}\nend select {n9}", "x"),
    ("select_type_named", "{n9}: select type ({n1} => {n2})\ntype is (real) {n9}\n{S}\nclass default {n9}\n{S}\nend select {n9}", "x"),
    ("associate_named", "{n9}: associate ({n1} => {n2}, {n3} => {n4}({d1}))\n{S}\nend associate {n9}", "x"),
    ("do_named_label_term", "{n9}: do {L1} {n1} = 1, {d1}\n{S}\n{L1} end do {n9}", "x"),
    ("do_while_named", "{n9}: do while ({n1} < {d1})\n{S}\nend do {n9}", "x"),
    ("do_comma", "do, {n1} = 1, {d1}\n{S}\nend do", "fix x"),
    ("do_label_while", "do {L1} while ({n1} < {d1})\n{S}\n{L1} continue", "fix x"),
    ("select_case_logical", "select case ({n1} > {d1})\ncase (.true.)\n{S}\ncase (.false.)\n{S}\nend select", "fix x"),
    ("do_concurrent_mask", "do concurrent ({n1} = 1:{d1}, {n2} = 1:{d2}, {n1} /= {n2})\n{S}\nend do", "f08 x"),
    ("critical_named", "{n9}: critical\n{S}\nend critical {n9}", "f08 x"),
]

# ---- program-unit contexts; {SPEC} and {EXEC} are statement lists
UNITS = [
    ("program", "program {n8}\n{SPEC}\n{EXEC}\nend program {n8}", "fix one"),
    ("program_anon", "{SPEC}\n{EXEC}\nend", "fix"),
    ("subroutine", "subroutine {n8}({n7})\n{SPEC}\n{EXEC}\nend subroutine {n8}", "fix one"),
    ("subroutine_bindc", "subroutine {n8}({n7}) bind(c, name='{s1}')\n{SPEC}\n{EXEC}\nend subroutine {n8}", ""),
    ("function", "function {n8}({n7}) result({n6})\n{SPEC}\n{EXEC}\nend function {n8}", "one"),
    ("function_typed", "integer function {n8}({n7})\n{SPEC}\n{EXEC}\n{n8} = 1\nend function", "fix one"),
    ("module", "module {n8}\n{SPEC}\ncontains\nsubroutine {n7}()\n{EXEC}\nend subroutine {n7}\nend module {n8}", "one"),
    ("module_spec", "module {n8}\n{SPEC}\nend module {n8}", "one"),
    ("program_contains", "program {n8}\n{SPEC}\n{EXEC}\ncontains\nfunction {n7}()\n{n7} = 1\nend function {n7}\nend program {n8}", ""),
    ("two_units", "subroutine {n7}\nend subroutine {n7}\nprogram {n8}\n{SPEC}\n{EXEC}\nend program {n8}", "fix one"),
    ("block_data", "block data {n8}\n{SPEC}\nend block data {n8}", "fix"),
    ("submodule", "submodule ({n6}) {n8}\n{SPEC}\ncontains\nsubroutine {n7}()\n{EXEC}\nend subroutine {n7}\nend submodule {n8}", "f08"),
    # ---- added after a coverage audit of the rule classes' match()/tostr() (tools/covaudit.py) and the
    # round-3 seeded changes; flag x = extended (quick tier: fewer rotations, no depth-2 nesting)
    ("block_data_anon", "block data\n{SPEC}\nend block data", "fix x"),
    ("function_typed_result", "integer function {n8}({n7}) result({n6})\n{SPEC}\n{EXEC}\n{n6} = 1\nend function {n8}", "one x"),
    ("function_result_decl", "function {n8}({n7}) result({n6})\nreal :: {n6}\n{SPEC}\n{EXEC}\n{n6} = 1.0\nend function {n8}", "one x"),
    ("sub_then_anon", "subroutine {n7}\nend subroutine {n7}\n{SPEC}\n{EXEC}\nend", "fix x"),
    ("anon_then_sub", "{SPEC}\n{EXEC}\nend\nsubroutine {n7}\nend subroutine {n7}", "fix x"),
    ("function_prefix", "pure elemental real function {n8}({n7})\n{SPEC}\n{EXEC}\n{n8} = 1\nend function {n8}", "x"),
    ("function_result_bind", "function {n8}() result({n6}) bind(c)\n{SPEC}\n{EXEC}\nend function {n8}", "x"),
    ("subroutine_prefix", "recursive subroutine {n8}({n7}, *)\n{SPEC}\n{EXEC}\nend subroutine {n8}", "fix x"),
    ("subroutine_entry", "subroutine {n8}({n7})\n{SPEC}\nentry {n6}({n7})\n{EXEC}\nreturn\nend subroutine {n8}", "fix x"),
    ("function_entry", "function {n8}({n7})\n{SPEC}\nentry {n6}() result({n7})\n{EXEC}\nreturn\nend function {n8}", "x"),
    ("module_interface", "module {n8}\n{SPEC}\ninterface {n6}\n  module procedure {n7}\nend interface {n6}\ncontains\nsubroutine {n7}()\n{EXEC}\nend subroutine {n7}\nend module {n8}", "x"),
]


def flags(entry):
    return set(entry[2].split())


def by_name(table, name):
    for e in table:
        if e[0] == name:
            return e
    raise KeyError(name)


def holes_of(text):
    """hole tags in order of first occurrence"""
    out = []
    i = 0
    while True:
        i = text.find("{", i)
        if i < 0:
            return out
        j = text.find("}", i)
        tag = text[i + 1:j]
        if tag not in ("S", "SPEC", "EXEC") and tag not in out:
            out.append(tag)
        i = j + 1


def fill(text, values, bodies=None):
    """substitute holes (values: tag -> string, possibly symbolic) and bodies ('S'/'SPEC'/'EXEC' -> text)"""
    out = []
    i = 0
    n = len(text)
    while i < n:
        j = text.find("{", i)
        if j < 0:
            out.append(text[i:])
            break
        out.append(text[i:j])
        k = text.find("}", j)
        tag = text[j + 1:k]
        if bodies is not None and tag in bodies:
            out.append(bodies[tag])
        elif tag in values:
            out.append(values[tag])
        else:
            out.append(DEFAULTS[tag])
        i = k + 1
    return "".join(out)


def indent_lines(text, pad):
    return "\n".join([(pad + l if l else l) for l in text.split("\n")])
