"""Shared harness helpers.  This file is ordinary Python against the fparser API; in symbolic mode
it is loaded through the shadow import hook (string literals become shadow strings), natively it
is imported as is."""
import logging
from sse import api
from fparser.two.parser import ParserFactory
from fparser.two import Fortran2003, utils as U
from fparser.two.Fortran2008.block_stmt_r808 import Block_Stmt
from fparser.common import splitline
from fparser.common.readfortran import FortranStringReader, Line, Comment as RComment
from fparser.common.sourceinfo import FortranFormat
from fparser.two.symbol_table import SYMBOL_TABLES
from fparser.two.utils import Base, BlockBase, FortranSyntaxError, NoMatchError, InternalSyntaxError, InternalError

logging.disable(logging.CRITICAL)

_REG = {}
_CUR = [None]


def _memo_cells():
    out = []
    for c in splitline.string_replace_map.__closure__ or ():
        v = c.cell_contents
        if isinstance(v, dict):
            out.append(v)
    return out


def reset(keep_files=False):
    """state every path starts from: memo cleared, symbol tables cleared, BLOCK counter 0"""
    for d in _memo_cells():
        d.clear()
    SYMBOL_TABLES.clear()
    Block_Stmt.counter = 0
    v = api.vfs()
    if v is not None and not keep_files:
        v.reset()


def get_parser(std, real=False):
    """parser class for std.  The registry built by the real ParserFactory.create(std) is cached
    per process and swapped in (create() is 60 ms under the shadow runtime); real=True always
    calls create()."""
    key = api.text(std)
    if real or key not in _REG:
        p = ParserFactory().create(std=std)
        _REG[key] = (p, Base.subclasses)
        _CUR[0] = key
        return p
    p, reg = _REG[key]
    if _CUR[0] != key or Base.subclasses is not reg:
        Base.subclasses = reg
        _CUR[0] = key
    SYMBOL_TABLES.clear()
    return p


def parse(src, std="f2003", ignore_comments=True, real_create=False, **kw):
    p = get_parser(std, real_create)
    reader = FortranStringReader(src, ignore_comments=ignore_comments, **kw)
    return p(reader)


def site(exc, depth=2):
    """innermost fparser frames of an exception's traceback: 'file:function<-file:function'"""
    tb = exc.__traceback__
    frames = []
    while tb is not None:
        code = tb.tb_frame.f_code
        fn = str(code.co_filename)
        i = fn.find("/fparser/")
        if i >= 0:
            frames.append(fn[i + 9:] + ":" + str(code.co_qualname))
        tb = tb.tb_next
    return "<-".join(frames[::-1][:depth])


def outcome(fn):
    """('ok', result) or ('exc', type name, exception) -- SystemExit included"""
    try:
        return ("ok", fn(), None)
    except SystemExit as e:
        return ("SystemExit", None, e)
    except Exception as e:
        return (type(e).__name__, None, e)


def shape(node):
    """structure of a tree: nested lists of class names, leaf strings (possibly symbolic), None"""
    if isinstance(node, Base):
        kids = [shape(c) for c in node.children]
        it = getattr(node, "item", None)
        lab = None
        nm = None
        if it is not None:
            lab = getattr(it, "label", None)
            nm = getattr(it, "name", None)
        return [type(node).__name__, lab, nm, kids]
    if isinstance(node, (list, tuple)):
        return [shape(c) for c in node]
    return node


def same_shape(a, b, out=None):
    """list of conditions (bools / symbolic bools) whose conjunction says shapes are equal"""
    top = out is None
    if top:
        out = []
    if isinstance(a, list) and isinstance(b, list):
        if len(a) != len(b):
            out.append(False)
        else:
            for x, y in zip(a, b):
                same_shape(x, y, out)
    elif isinstance(a, list) or isinstance(b, list):
        out.append(False)
    elif a is None or b is None:
        out.append(a is None and b is None)
    elif isinstance(a, str) and isinstance(b, str):
        if len(a) != len(b):
            out.append(False)
        else:
            out.append(a == b)
    else:
        out.append(a == b)
    if top:
        return api.conj(out)
    return out


def strip_trailing_blank_lines(s):
    return s.rstrip("\n")
