"""Program generator over catalogue T (dual mode: plain Python; shadow strings in symbolic mode)."""
from sse import api
from vh import catalogue as T

KEYWORDS = """if do go to in end use out len all any abs cos sin tan exp log max min mod int dim nor not and or eq ne lt le gt ge eqv
neqv true false call case data else exit goto open read real save stop then type none only kind unit file stat name
block class close cycle entry pause print where while write inout
allocate assign backspace common complex contains continue critical deallocate dimension double elemental elsewhere endfile enum
enumerator equivalence error external final flush forall format function generic implicit import include inquire integer intent
interface intrinsic logical module namelist nullify optional parameter pointer private procedure program protected public pure
recursive result return rewind select sequence subroutine submodule sync target volatile wait character precision associate
asynchronous bind abstract allocatable value concurrent contiguous codimension default elseif enddo endif selectcase selecttype
is non_overridable nopass pass deferred extends operator assignment mold source errmsg iostat newunit fmt rec err advance size
""".split()


F2008_INTRINSICS = """acosh asinh atanh bessel_j0 bessel_j1 bessel_jn bessel_y0 bessel_y1 bessel_yn erf erfc erfc_scaled gamma hypot
log_gamma norm2 parity popcnt poppar leadz trailz bge bgt ble blt dshiftl dshiftr shifta shiftl shiftr maskl maskr merge_bits iall iany
iparity findloc storage_size is_contiguous image_index lcobound ucobound num_images this_image atomic_define atomic_ref
execute_command_line compiler_options compiler_version c_sizeof""".split()


def _intrinsic_names():
    out = []
    try:
        from fparser.two.Fortran2003 import Intrinsic_Name
        for k in Intrinsic_Name.function_names:
            out.append(str(k).lower())
    except Exception:
        pass
    try:
        from fparser.two.Fortran2008.intrinsics_f08 import Intrinsic_Name as Intrinsic_Name_2008
        for k in Intrinsic_Name_2008.function_names:
            if str(k).lower() not in out:
                out.append(str(k).lower())
    except Exception:
        pass
    # Fortran 2008 intrinsics (independent of fparser's tables)
    for k in F2008_INTRINSICS:
        if k not in out:
            out.append(k)
    return out


_BAD = {}


def bad_names(n):
    """reserved-looking names of length n (keywords + intrinsic function names, lower case)"""
    if n not in _BAD:
        s = []
        for k in KEYWORDS + _intrinsic_names():
            if len(k) == n and k not in s:
                s.append(k)
        _BAD[n] = s
    return _BAD[n]


def require(ctx, c):
    """assume by branching: keeps path conditions a product of per-character domains"""
    if not c:
        ctx.assume(False)


def fresh_name(ctx, tag, n, avoid=True, case="any"):
    nm = ctx.name(tag, n, case)
    if avoid:
        low = nm.lower()
        for k in bad_names(n):
            require(ctx, low != k)
    return nm


def make_holes(ctx, sym, lits="print"):
    """sym: tag -> length.  returns tag -> string (symbolic)"""
    vals = {}
    for tag in sorted(sym):
        n = sym[tag]
        kind = tag[0]
        if kind == "n":
            vals[tag] = fresh_name(ctx, tag, n)
        elif kind == "o":
            vals[tag] = ctx.chars(tag, n, "letter")
            for k in ("eq", "ne", "lt", "le", "gt", "ge", "or", "and", "not", "eqv", "neqv", "true", "false"):
                if len(k) == n:
                    require(ctx, vals[tag].lower() != k)
        elif kind == "d":
            vals[tag] = ctx.digits(tag, n)
        elif kind == "L":
            vals[tag] = ctx.digits(tag, n, nonzero_first=True)
        elif kind == "s":
            vals[tag] = ctx.chars(tag, n, lits)
        else:
            raise ValueError(tag)
    # distinct labels
    labs = [t for t in vals if t[0] == "L"]
    for i in range(len(labs)):
        for j in range(i):
            a, b = vals[labs[i]], vals[labs[j]]
            if len(a) == len(b):
                require(ctx, a != b)
    LS = ["L%d" % i for i in range(1, 10)]
    for t in LS:
        if t in vals:
            for u in LS:
                if u not in vals and len(vals[t]) == len(T.DEFAULTS[u]):
                    require(ctx, vals[t] != T.DEFAULTS[u])
    # construct names differ from each other
    cn = [t for t in ("n9", "n9a", "n9b") if t in vals]
    for t in cn:
        for u in ("n9", "n9a", "n9b"):
            if u != t:
                o = vals[u] if u in vals else T.DEFAULTS[u]
                if len(o) == len(vals[t]) and (u not in vals or u < t):
                    require(ctx, vals[t].lower() != o.lower())
    return vals


def quote_body(body, q):
    """double every occurrence of the delimiter q inside a literal body"""
    out = []
    for ch in body:
        out.append(ch)
        if ch == q:
            out.append(q)
    return "".join(out)


def _delim(text, j):
    """delimiter of the character literal that is open at position j of a template (None if none)"""
    start = text.rfind("\n", 0, j) + 1
    q = None
    for ch in text[start:j]:
        if q is None:
            if ch in "'\"":
                q = ch
        elif ch == q:
            q = None
    return q


def fill(text, vals, bodies=None):
    """like catalogue.fill but doubles quotes in literal bodies according to the delimiter in the template"""
    out = []
    i = 0
    n = len(text)
    while i < n:
        j = text.find("{", i)
        if j < 0:
            out.append(text[i:])
            break
        out.append(text[i:j])
        k = text.find("}", j)
        tag = text[j + 1:k]
        if bodies is not None and tag in bodies:
            out.append(bodies[tag])
        else:
            v = vals[tag] if tag in vals else T.DEFAULTS[tag]
            if tag[0] == "s":
                q = _delim(text, j)
                if q is not None:
                    v = quote_body(v, q)
            out.append(v)
        i = k + 1
    return "".join(out)


def render_exec(item, vals, depth=0):
    """item: template name | [construct name, [items...]]"""
    if isinstance(item, (list, tuple)):
        cons = T.by_name(T.CONS, item[0])
        body = "\n".join([render_exec(x, vals, depth + 1) for x in item[1]])
        return fill(T.retag(cons[1], depth), vals, {"S": body})
    return fill(T.retag(T.by_name(T.EXEC, item)[1], depth), vals)


def program_text(p, vals):
    """p: dict(unit=, spec=[...], exec=[...])"""
    spec = "\n".join([fill(T.by_name(T.SPEC, s)[1], vals) for s in p.get("spec", [])])
    ex = "\n".join([render_exec(x, vals) for x in p.get("exec", [])])
    u = T.by_name(T.UNITS, p.get("unit", "program"))
    txt = fill(u[1], vals, {"SPEC": spec, "EXEC": ex})
    # drop empty lines left by empty slots
    return "\n".join([l for l in txt.split("\n") if len(l) > 0]) + "\n"


def used_holes(p):
    """hole tags used by a program spec, in order"""
    out = []

    def add(text):
        for h in T.holes_of(text):
            if h not in out:
                out.append(h)

    def walk(item, depth=0):
        if isinstance(item, (list, tuple)):
            add(T.retag(T.by_name(T.CONS, item[0])[1], depth))
            for x in item[1]:
                walk(x, depth + 1)
        else:
            add(T.retag(T.by_name(T.EXEC, item)[1], depth))

    add(T.by_name(T.UNITS, p.get("unit", "program"))[1])
    for s in p.get("spec", []):
        add(T.by_name(T.SPEC, s)[1])
    for x in p.get("exec", []):
        walk(x)
    return out


def is_f08(p):
    def f08(table, name):
        return "f08" in T.flags(T.by_name(table, name))

    def walk(item):
        if isinstance(item, (list, tuple)):
            return f08(T.CONS, item[0]) or any(walk(x) for x in item[1])
        return f08(T.EXEC, item)

    return (f08(T.UNITS, p.get("unit", "program")) or any(f08(T.SPEC, s) for s in p.get("spec", []))
            or any(walk(x) for x in p.get("exec", [])))


def sym_rotations(holes, k_chars, lens):
    """split the hole list into groups whose total symbolic length is <= k_chars; every hole is
    symbolic in exactly one group.  lens: kind letter -> length"""
    groups = []
    cur = {}
    tot = 0
    for h in holes:
        n = lens.get(h, lens.get(h[0], 1))
        if tot + n > k_chars and cur:
            groups.append(cur)
            cur = {}
            tot = 0
        cur[h] = n
        tot += n
    if cur:
        groups.append(cur)
    return groups
