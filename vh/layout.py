"""Free-form / fixed-form layout oracle: renders one statement of a program over several
physical lines in ways the standard allows, with known line spans, and gives the expected reader
items by construction.  Written against the Fortran standard (3.3.1 free form, 3.3.2 fixed form),
independent of fparser's reader; runs on shadow strings."""
from sse import api
from vh import lexer as LX


def tok_spans(line):
    """[(kind, start, end)] of the tokens of a one-line statement (lexer oracle)"""
    out = []
    i = 0
    n = len(line)
    while i < n:
        c = line[i]
        if c == " ":
            i += 1
            continue
        if c == "'" or c == '"':
            j = i + 1
            while j < n:
                if line[j] == c:
                    if j + 1 < n and line[j + 1] == c:
                        j += 2
                        continue
                    break
                j += 1
            out.append(("s", i, j + 1))
            i = j + 1
            continue
        if c == "!":
            break
        if api.char_in(c, LX._WORD):
            j = i + 1
            while j < n and api.char_in(line[j], LX._WORD):
                j += 1
            out.append(("w", i, j))
            i = j
            continue
        # multi-character operators are single lexical tokens
        two = line[i:i + 2]
        if two in ("**", "//", "==", "/=", "<=", ">=", "=>", "::", "(/", "/)"):
            out.append(("p", i, i + 2))
            i += 2
            continue
        out.append(("p", i, i + 1))
        i += 1
    return out


def split_points(line):
    """concrete enumeration of split points (token index, offset) of a concrete line:
    offset 0 = boundary before the token; 0 < offset < len = inside the token"""
    pts = []
    sp = tok_spans(line)
    for j, (k, a, b) in enumerate(sp):
        if j > 0:
            pts.append((j, 0))
        if k == "s":
            for o in range(1, b - a):
                pts.append((j, o))
        elif k == "w" and b - a > 1:
            pts.append((j, (b - a) // 2))
        elif k == "p" and b - a == 2:
            pts.append((j, 1))
    return pts


def _expo_word(line, sp, i):
    """is the word token i the exponent part of a real literal: 12e / 5d, or a bare e / d
    directly after the '.' of '3.d-2'"""
    w = line[sp[i][1]:sp[i][2]]
    if not api.char_in(w[-1:], "eEdD"):
        return False
    if w[:1].isdigit():
        return True
    return len(w) == 1 and i > 0 and sp[i - 1][2] == sp[i][1] and line[sp[i - 1][1]:sp[i - 1][2]] == "."


def free_layout(line, j, o, amp, trail=None, fillers=(), indent="   ", gap=" "):
    """physical lines for `line` continued at split point (j, o).
    amp: continuation line starts with '&'.  trail: comment text placed after the '&' of the
    first line (only legal when the split is outside character context).  fillers: lines placed
    between the two parts ('' blank or '!...' comment lines).
    Returns (lines, kind) with kind in 'tok' | 'mid' | 'lit', or None when the split point does
    not exist on this path / the layout is not allowed by the standard."""
    sp = tok_spans(line)
    if j >= len(sp):
        return None
    k, a, b = sp[j]
    if o >= b - a:
        return None
    cut = a + o
    soft = False
    if o == 0 and j > 0 and sp[j - 1][2] == a:
        # adjacent tokens of the oracle lexer that may belong to one lexical token of the
        # standard (.op. / .true. / 1.5e-3): such a boundary is treated like a token interior
        pk, pa, pb = sp[j - 1]
        prev = line[pa:pb]
        cur = line[a:b]
        if prev == "." or cur == ".":
            soft = True
        elif (cur == "+" or cur == "-") and pk == "w" and _expo_word(line, sp, j - 1):
            soft = True
        elif (prev == "+" or prev == "-") and j > 1 and sp[j - 2][2] == pa and sp[j - 2][0] == "w" and _expo_word(line, sp, j - 2):
            soft = True
    if o == 0 and not soft:
        kind = "tok"
        first = line[:cut].rstrip(" ") + gap + "&"
        rest = line[cut:]
    elif k == "s":
        kind = "lit"
        if not amp or trail is not None:
            return None
        first = line[:cut] + "&"
        rest = line[cut:]
    else:
        kind = "mid"
        if not amp:
            return None
        first = line[:cut] + "&"
        rest = line[cut:]
    if trail is not None:
        first = first + " !" + trail
    second = indent + ("&" if amp else "") + rest
    return [first] + list(fillers) + [second], kind


def multi_layout(line, cuts, amp=True, fillers=(), indent="   "):
    """physical lines for `line` continued at several split points [(j, o), ...] (ascending).
    A cut with o > 0 inside a character literal is a character-context continuation: the '&'
    follows the last character directly and the next line starts with '&' (3.3.1.3.1); a cut with
    o == 0 is a token boundary ('&' after a blank; the next line starts with '&' iff `amp`).
    fillers: lines ('' or '!...') placed after every continued line.  Only literal-interior and
    plain token-boundary cuts are supported (None otherwise)."""
    sp = tok_spans(line)
    pos = []
    for (j, o) in cuts:
        if j >= len(sp):
            return None
        k, a, b = sp[j]
        if o >= b - a:
            return None
        if o > 0 and k != "s":
            return None
        if o == 0 and j > 0 and sp[j - 1][2] == a:
            return None              # adjacent tokens: may be one lexical token (see free_layout)
        pos.append((a + o, o > 0))
    out = []
    start = 0
    lead = ""
    for cut, inlit in pos:
        part = line[start:cut]
        if inlit:
            out.append(lead + part + "&")
            lead = indent + "&"
        else:
            out.append(lead + part.rstrip(" ") + " &")
            lead = indent + ("&" if amp else "")
        out += list(fillers)
        start = cut
    out.append(lead + line[start:])
    return out


def squeeze(text):
    """drop blanks outside character literals"""
    out = []
    q = None
    i = 0
    n = len(text)
    while i < n:
        c = text[i]
        if q is None:
            if c == "'" or c == '"':
                q = c
                out.append(c)
            elif c != " ":
                out.append(c)
        else:
            out.append(c)
            if c == q:
                if i + 1 < n and text[i + 1] == q:
                    out.append(q)
                    i += 1
                else:
                    q = None
        i += 1
    return "".join(out)


def oracle_item(line):
    """(label, construct name, statement text) of a one-line free-form statement, by the standard:
    a statement label is 1-5 digits at the start; a construct name is `name :` (not `::`) before
    a construct keyword."""
    sp = tok_spans(line)
    label = None
    name = None
    k = 0
    if sp and sp[0][0] == "w" and line[sp[0][1]:sp[0][2]].isdigit() and len(sp) > 1:
        label = int(line[sp[0][1]:sp[0][2]])
        k = 1
    if (len(sp) > k + 2 and sp[k][0] == "w" and sp[k + 1][0] == "p" and sp[k + 1][2] - sp[k + 1][1] == 1
            and line[sp[k + 1][1]] == ":" and not line[sp[k][1]:sp[k][1] + 1].isdigit()):
        name = line[sp[k][1]:sp[k][2]]
        k += 2
    start = sp[k][1] if k < len(sp) else len(line)
    return label, name, line[start:].rstrip(" ")


def fixed_line(label, text, cont=None):
    """one fixed-form physical line: label right-justified in columns 1-5, continuation mark in
    column 6, statement text from column 7"""
    lab = "" if label is None else label
    return " " * (5 - len(lab)) + lab + (" " if cont is None else cont) + text
