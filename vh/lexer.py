"""Independent Fortran lexer / normaliser (oracle for C02, C04, C11 ...).  Works on shadow strings:
character tests on symbolic characters fork through the engine.

tokens(text): list of (kind, string) with kind in
   'w' word  [A-Za-z0-9_$]+          's' character literal incl. delimiters, verbatim
   'p' any other non-blank character (one token per character, except the pairs below)
   'n' newline (statement separator), '!' comment text to end of line (when keep_comments)
Blanks are dropped.  Continuation lines are not handled (printed source has none).
"""
from sse import api

_WORD = "ABCDEFGHIJKLMNOPQRSTUVWXYZabcdefghijklmnopqrstuvwxyz0123456789_$"

COMPOUND = {
    "enddo": ["end", "do"], "endif": ["end", "if"], "goto": ["go", "to"], "elseif": ["else", "if"],
    "endprogram": ["end", "program"], "endsubroutine": ["end", "subroutine"], "endfunction": ["end", "function"],
    "endmodule": ["end", "module"], "endtype": ["end", "type"], "endselect": ["end", "select"], "endwhere": ["end", "where"],
    "endforall": ["end", "forall"], "endinterface": ["end", "interface"], "endassociate": ["end", "associate"],
    "endblock": ["end", "block"], "endcritical": ["end", "critical"], "endenum": ["end", "enum"], "endfile": ["end", "file"],
    "selectcase": ["select", "case"], "selecttype": ["select", "type"], "doubleprecision": ["double", "precision"],
    "blockdata": ["block", "data"], "inout": ["in", "out"], "endblockdata": ["end", "block", "data"],
    "endsubmodule": ["end", "submodule"], "elsewhere": ["else", "where"], "implicitnone": ["implicit", "none"],
}


def tokens(text, keep_comments=False):
    out = []
    i = 0
    n = len(text)
    while i < n:
        c = text[i]
        if c == " " or c == "\t":
            i += 1
            continue
        if c == "\n":
            out.append(("n", "\n"))
            i += 1
            continue
        if c == "'" or c == '"':
            j = i + 1
            while True:
                if j >= n:
                    break
                if text[j] == c:
                    if j + 1 < n and text[j + 1] == c:
                        j += 2
                        continue
                    break
                if text[j] == "\n":
                    break
                j += 1
            out.append(("s", text[i:j + 1]))
            i = j + 1
            continue
        if c == "!":
            j = i
            while j < n and text[j] != "\n":
                j += 1
            if keep_comments:
                out.append(("!", text[i:j]))
            i = j
            continue
        if api.char_in(c, _WORD):
            j = i + 1
            while j < n and api.char_in(text[j], _WORD):
                j += 1
            out.append(("w", text[i:j]))
            i = j
            continue
        out.append(("p", c))
        i += 1
    return out


def normalise(toks, drop=("::",)):
    """documented canonicalisations applied to a token list: compound keywords split, '::' dropped,
    blank statements dropped, commas inside FORMAT statements dropped"""
    out = []
    k = 0
    n = len(toks)
    first = None
    nwords = 0
    fmt = False
    first_digit = False
    while k < n:
        kind, s = toks[k]
        if kind == "n":
            first = None
            nwords = 0
            fmt = False
        elif kind == "w":
            nwords += 1
            if first is None:
                first = s.lower() if api.is_concrete(s) else ""
                first_digit = api.char_in(s[:1], "0123456789")     # a label (also when symbolic)
            if nwords <= 2 and api.is_concrete(s) and s.lower() == "format" and (nwords == 1 or first_digit):
                fmt = True       # [label] FORMAT ( ... )
        if fmt and kind == "p" and s == ",":
            k += 1               # commas in FORMAT lists are a documented canonicalisation
            continue
        if (kind == "p" and s == "(" and k + 1 < n and toks[k + 1][0] == "p" and toks[k + 1][1] == ")"
                and first in ("subroutine", "call", "entry")):
            k += 2   # empty dummy-argument / actual-argument parentheses
            continue
        if kind == "p" and s == ":" and k + 1 < n and toks[k + 1][0] == "p" and toks[k + 1][1] == ":" and "::" in drop:
            k += 2
            continue
        if kind == "w" and api.is_concrete(s):
            low = s.lower()
            if (low in ("kind", "len", "unit") and k + 1 < n and toks[k + 1][0] == "p" and toks[k + 1][1] == "="
                    and not (k + 2 < n and toks[k + 2][0] == "p" and toks[k + 2][1] == "=")):
                k += 2   # explicit KIND= / LEN= / UNIT= keyword
                continue
            if low in COMPOUND:
                for part in COMPOUND[low]:
                    out.append(("w", part))
                k += 1
                continue
        if kind == "n" and (not out or out[-1][0] == "n"):
            k += 1
            continue
        out.append((kind, s))
        k += 1
    while out and out[-1][0] == "n":
        out.pop()
    return out


def same_tokens(a, b, names=()):
    """condition: token lists equal.  Words are compared case-insensitively (keyword case is a
    documented canonicalisation) but a word of the reference list `a` that is one of `names` (the
    name lexemes of the program, known by construction) must be reproduced exactly; literals and
    punctuation exactly."""
    if len(a) != len(b):
        return False
    conds = []
    for (ka, sa), (kb, sb) in zip(a, b):
        if ka != kb or len(sa) != len(sb):
            return False
        if ka == "w":
            conds.append(sa.lower() == sb.lower())
            is_name = api.disj([sa == v for v in names if len(v) == len(sa)])
            conds.append(api.disj([api.neg(is_name), sa == sb]))
        else:
            conds.append(sa == sb)
    return api.conj(conds)


def show(toks):
    return " ".join([api.text(s) if api.is_concrete(s) else "<sym>" for k, s in toks if k != "n"])
