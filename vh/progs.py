"""Enumeration of program units over catalogue T shared by the program-level properties."""
from vh import catalogue as T
from vh import gen as G

LENS_Q = dict(n=2, d=2, L=2, s=2, o=2)
LENS_T = dict(n=3, d=2, L=3, s=3, o=3)


def _prog_for(kind, name, unit="program"):
    if kind == "spec":
        if "mod" in T.flags(T.by_name(T.SPEC, name)):
            return dict(unit="module_spec", spec=[name], exec=[])     # only legal in a module's specification part
        return dict(unit=unit, spec=[name], exec=["continue"])
    if kind == "exec":
        return dict(unit=unit, spec=[], exec=[name])
    return dict(unit=unit, spec=[], exec=["call_plain", [name, ["assign"]]])


def base_programs():
    out = []
    for kind, table in (("spec", T.SPEC), ("exec", T.EXEC), ("cons", T.CONS)):
        for e in table:
            out.append(_prog_for(kind, e[0]))
    return out


def programs(tier):
    """list of program specs"""
    out = []
    for kind, table in (("spec", T.SPEC), ("exec", T.EXEC), ("cons", T.CONS)):
        for e in table:
            out.append(_prog_for(kind, e[0]))
    # unit contexts
    for u in T.UNITS:
        if u[0] == "program":
            continue
        p = dict(unit=u[0], spec=["int_decl"], exec=["assign"])
        if u[0] in ("module_spec", "block_data"):
            p["exec"] = []
        out.append(p)
    # nesting depth 2
    outer_q = ["if_then", "do_label", "select_case"]
    for c in T.CONS:
        for o in T.CONS:
            if tier == "quick" and not (o[0] in outer_q or c[0] in ("if_then",)):
                continue
            if tier == "quick" and "x" in T.flags(c) and o[0] != "if_then":
                continue
            if o[0] in ("where_cons", "forall_cons") or c[0] == o[0] and tier == "quick":
                continue
            out.append(dict(unit="program", spec=[], exec=[[o[0], [[c[0], ["assign"]], "call_plain"]]]))
    if tier != "quick":
        # other contexts for every executable / spec template, and depth 3
        for unit in ("subroutine", "function", "module"):
            for kind, table in (("spec", T.SPEC), ("exec", T.EXEC), ("cons", T.CONS)):
                for e in table:
                    if unit == "module" and e[0] in ("intent", "optional", "stmt_function", "value_attr"):
                        continue
                    out.append(_prog_for(kind, e[0], unit))
        d3 = ["if_else", "do_label", "do_shared", "select_case", "do_named", "block", "associate"]
        for a in d3:
            for b in d3:
                for c in d3:
                    out.append(dict(unit="program", spec=[], exec=[[a, [[b, [[c, ["assign"]]]], "continue"]]]))
    return out


def program_units(tier, h, stds=("f2003", "f2008"), ics=(True,), k=None, lens=None, extra=None, filt=None, rotate=False):
    """units: program x rotation group of symbolic holes x std x ignore_comments.
    rotate=True: instead of the full product each (program, hole) gets one (std, ic) combination,
    rotating over the combinations"""
    units = []
    rot = 0
    base = base_programs()
    for p in programs(tier):
        if filt is not None and not filt(p):
            continue
        holes = G.used_holes(p)
        f08 = G.is_f08(p)
        # one symbolic hole per unit (path counts of independent holes multiply); thorough uses
        # longer lexemes for the base programs
        ln = lens or (LENS_T if (tier != "quick" and p in base) else LENS_Q)
        groups = G.sym_rotations(holes, k or 2, ln) or [{}]
        for gi, g in enumerate(groups):
            combos = [(std, ic) for std in stds for ic in ics if not (f08 and std == "f2003")]
            if rotate and combos:
                rot += 1
                combos = [combos[rot % len(combos)]]
            for std, ic in combos:
                if True:
                    u = dict(h=h, prog=p, sym=g, std=std, ic=ic, cost=len(g) + 2 * len(str(p)) // 40)
                    if extra:
                        u.update(extra)
                    units.append(u)
    return units


def corpus_units(tier, h, stds=("f2003", "f2008"), extra=None):
    """units over the programs harvested from the repository's own tests (vh/corpus.json): one
    letter/digit inside a name or number symbolic"""
    from sse import harvest
    us = []
    k = 0
    for c in harvest.corpus():
        spots = c["spots"]
        n = 2 if tier == "quick" else 8
        step = max(1, len(spots) // n)
        for sp in spots[::step][:n]:
            k += 1
            std = stds[k % len(stds)]
            if std == "f2003" and not c["f2003"]:
                std = "f2008"
            if std == "both" and not c["f2003"]:
                continue
            u = dict(h=h, ctext=str(c["text"]), spot=[int(x) for x in sp], sym={}, std=std, ic=True, cost=3)
            if extra:
                u.update(extra)
            us.append(u)
    return us


def build(ctx, comments=False):
    """program text of the unit ctx.p (holes created here)"""
    p = ctx.p
    if "ctext" in p:
        text = p["ctext"]
        i, a, b = p["spot"]
        ch = text[i]
        dom = "digit" if ch.isdigit() else ("upper" if ch.isupper() else "lower")
        others = text[a:i] + text[i + 1:b]
        if dom == "digit" and others == "0" * len(others):
            dom = "digit1"      # a statement label / literal must not become zero
        c = ctx.chars("c", 1, dom)
        word = text[a:i] + c + text[i + 1:b]
        low = word.lower()
        for k in G.bad_names(b - a):
            G.require(ctx, low != k)
        src = text[:i] + c + text[i + 1:]
        if not src.endswith("\n"):
            src = src + "\n"
        return src, {}
    vals = G.make_holes(ctx, p.get("sym", {}))
    src = G.program_text(p["prog"], vals)
    return src, vals
